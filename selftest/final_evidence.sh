#!/bin/bash
# Refresh evidence/*.json from runs in /verif against /repo's working tree (default: thorough tier),
# remove stray replay files. Commit afterwards.
cd /verif
tier="${1:-thorough}"
if ! git -C /repo diff --quiet; then echo "refusing: /repo has uncommitted changes"; exit 2; fi
bad=0
for p in C02 C03 C05 C07 C14; do
  ./check $p $tier 2>&1 | grep -E "^\[C|VIOLATION|HARNESS|KNOWN" ; c=${PIPESTATUS[0]}
  [ "$c" -ne 0 ] && bad=1
done
rm -f replays/*.json
python3-vt - <<'PY'
import json, jsonschema, glob
sch = json.load(open('/root/.vp/EVIDENCE.schema.json'))
for f in sorted(glob.glob('/verif/evidence/*.json')):
    jsonschema.validate(json.load(open(f)), sch)
    print(f, 'valid')
jsonschema.validate(json.load(open('/verif/MANIFEST.json')), json.load(open('/root/.vp/MANIFEST.schema.json')))
print('MANIFEST valid')
PY
exit $bad
