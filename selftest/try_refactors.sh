#!/bin/bash
# usage: selftest/try_refactors.sh <dir with refactor*.diff> : apply each to /repo, run all checks (quick), restore.
cd /verif
for b in "$1"/refactor*.diff; do
  if ! git -C /repo diff --quiet; then echo "refusing: /repo dirty"; exit 2; fi
  git -C /repo apply "$(realpath $b)" || { echo "$(basename $b): patch does not apply"; continue; }
  res=""
  for p in C02 C03 C05 C07 C14; do
    o=$(./check $p quick 2>&1); c=$?
    res="$res $p:exit$c"
    if [ $c -ne 0 ]; then echo "$o" | grep -E "^rule=|HARNESS" | head -3 | cut -c1-700; fi
  done
  git -C /repo checkout -- . ; git -C /repo clean -fdq -- core macro src tests examples 2>/dev/null
  echo "$(basename $1) $(basename $b .diff) |$res"
done
