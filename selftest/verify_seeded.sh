#!/bin/bash
# usage: selftest/verify_seeded.sh <worktree> <outdir> <ID> <name>
# Confirms a sub-agent's change independently in its scratch worktree (suite passes with the change,
# demo fails with it, demo passes without it), then runs the /verif checks against it in /repo.
set -u
wt="$1"; out="$2"; id="$3"; name="$4"
export CARGO_NET_OFFLINE=true CARGO_TARGET_DIR="$wt/target"
cd "$wt" || exit 2
git checkout -q -- . ; git clean -fdq -- tests examples core macro src 2>/dev/null
echo "== unchanged tree + demo"
cp -r "$out"/demo/* . 2>/dev/null
demo_tests=$(cd "$out/demo" && find . -name '*.rs' -path './tests/*' | sed 's|./tests/||; s|\.rs$||')
for t in $demo_tests; do cargo test --offline --test "$t" 2>&1 | grep -E "^test result|error\[" | head -3; done
echo "== changed tree + demo"
git apply "$out/patch.diff" || { echo "PATCH DOES NOT APPLY"; exit 2; }
for t in $demo_tests; do cargo test --offline --test "$t" 2>&1 | grep -E "^test result|error\[" | head -3; done
echo "== changed tree, baseline suite (demo removed)"
for t in $demo_tests; do rm -f "tests/$t.rs"; done
cargo test --workspace --no-fail-fast --offline 2>&1 | grep -E "^test result" | awk '{p+=$4; f+=$6} END {print "passed",p,"failed",f}'
git checkout -q -- . ; git clean -fdq -- tests examples core macro src 2>/dev/null
echo "== /verif checks against the change"
cd /verif
for p in $id; do selftest/run_mutant.sh "$out/patch.diff" "$p" quick 2>&1 | grep -E "^(RESULT|VIOLATION|rule=)" | cut -c1-400 | head -4; done
