#!/bin/bash
# For every corpus receiver NAME: does parsesim still type-check with PARSESIM_SKIP=NAME?
# (the degraded-corpus build of ./check relies on it; run after editing the corpus). ~10 min on 4 shards.
# usage: selftest/skip_sweep.sh        (scratch target dirs under /tmp are removed at the end)
set -u
cd "$(dirname "$0")/../sim" || exit 2
names=$(grep -o 'v.push("[A-Za-z0-9_]*")' parsesim/src/skip_table.rs | sed 's/v.push("//; s/")//')
shard() {
  i=0
  for n in $names; do
    i=$((i+1)); [ $((i % 4)) -ne "$1" ] && continue
    if PARSESIM_SKIP=$n CARGO_NET_OFFLINE=true CARGO_TARGET_DIR=/tmp/skip-sweep-$1 cargo check --release --offline -p parsesim >/tmp/skip-sweep-$1.out 2>&1
    then echo "$n ok"; else echo "$n FAIL"; grep -E '^error' -A8 /tmp/skip-sweep-$1.out | head -20; fi
  done
}
for s in 0 1 2 3; do shard $s > /tmp/skip-sweep-$s.log & done; wait
cat /tmp/skip-sweep-[0-3].log | grep -v conda | sort | awk '/ ok$/ {ok++} / FAIL$/ {bad++; print} END {print ok+0, "ok,", bad+0, "fail"}'
rm -rf /tmp/skip-sweep-[0-3] /tmp/skip-sweep-[0-3].out /tmp/skip-sweep-[0-3].log
