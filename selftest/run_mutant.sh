#!/bin/bash
# usage: selftest/run_mutant.sh <patch.diff> <ID> [tier]   - apply a patch to /repo, run a check, restore /repo.
# Prints the check's VIOLATION lines and "RESULT <patch> <ID> exit=<code>".
set -u
patch="$(realpath "$1")"; id="$2"; tier="${3:-quick}"
cd /verif
if ! git -C /repo diff --quiet; then echo "refusing: /repo has uncommitted changes"; exit 2; fi
git -C /repo apply "$patch" || { echo "patch does not apply: $patch"; exit 2; }
trap 'git -C /repo checkout -- . ; git -C /repo clean -fdq -- core macro src tests examples 2>/dev/null' EXIT
out=$(./check "$id" "$tier" 2>&1); code=$?
echo "$out" | grep -E "^(VIOLATION|KNOWN-FINDING|HARNESS-ERROR|rule=)" | cut -c1-600 | head -8
echo "RESULT $(basename "$patch") $id exit=$code"
