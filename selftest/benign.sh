#!/bin/bash
# Property-preserving refactors (selftest/benign/*.diff): every check must stay quiet (exit 0).
# Serial: touches /repo. Some of them reword messages, so the repository's own suite may fail on them.
cd /verif
if ! git -C /repo diff --quiet; then echo "refusing: /repo has uncommitted changes"; exit 2; fi
bad=0
for b in selftest/benign/*.diff; do
  git -C /repo apply "$(realpath $b)" || { echo "$(basename $b): patch does not apply"; bad=1; continue; }
  res=""
  for p in C02 C03 C05 C07 C14; do
    ./check $p quick >/dev/null 2>&1; c=$?
    res="$res $p:exit$c"; [ $c -ne 0 ] && bad=1
  done
  git -C /repo checkout -- . ; git -C /repo clean -fdq -- core macro src tests examples 2>/dev/null
  echo "$(basename $b .diff) |$res"
done
rm -f replays/*.json
exit $bad
