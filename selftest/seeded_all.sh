#!/bin/bash
# Run every kept seeded change against the check of its property (quick tier). Serial: touches /repo.
cd /verif
for d in seeded/*/; do
  prop=$(python3 -c "import json;print(json.load(open('$d/meta.json'))['property'])")
  r=$(selftest/run_mutant.sh "$d/patch.diff" "$prop" quick 2>&1 | grep -E "^RESULT|^rule=" | head -2 | sed -E 's/^rule=([^ ]+).*/\1/' | tr '\n' ' ')
  echo "$(basename $d) | $r"
done
rm -f replays/*.json
