//! Simulator A (C05): accumulator histories on scheduled caller threads.
//!
//! Sub-commands (all output is JSON on stdout, logs on stderr):
//!   batch  --seed S --start A --count N [--workers W] [--progress FILE] [--digests FILE] [--max-failures K]
//!   sweep  [--max-len L]                 deterministic enumeration of all short single-thread histories
//!   one    --seed S --index I            print scenario, expected and observed traces of one run
//!   replay FILE                          re-run the scenario of a replay file; exit 1 + VIOLATION line if it fails
//!   minimise FILE OUT                    minimise the scenario in FILE (optionally one child process per candidate)

mod gen;
mod interp;
mod model;
mod scenario;
mod trace;

use std::collections::BTreeMap;
use std::io::Write;
use std::sync::atomic::{AtomicBool, Ordering};
use std::sync::Mutex;

use serde::{Deserialize, Serialize};
use serde_json::json;
use simcore::pool::{run_parallel, PoolCfg};
use simcore::{run_seed, Fnv, Stats};

use scenario::{ErrSpec, Outcome, Scenario, Slot, Stmt};
use trace::{Ev, Mismatch};

#[derive(Clone, Debug, Serialize, Deserialize)]
struct Failure {
    index: Option<u64>,
    mismatch: Mismatch,
    scenario: Scenario,
}

#[derive(Clone, Debug, Serialize, Deserialize)]
struct Replay {
    format: u32,
    property: String,
    rule: String,
    sim: String,
    verif_seed: Option<u64>,
    run_index: Option<u64>,
    scenario: Scenario,
    expected: String,
    observed: String,
    observed_digest: String,
    minimised: serde_json::Value,
}

struct RunResult {
    mismatch: Option<Mismatch>,
    trace_digest: u64,
    nontrivial: bool,
    obs: interp::Observed,
    cover: Vec<String>,
}

fn digest_traces(t: &[Vec<Ev>]) -> u64 {
    let mut f = Fnv::new();
    f.str(&serde_json::to_string(t).expect("trace serialises"));
    f.finish()
}

fn run_scenario(sc: &Scenario) -> RunResult {
    let (exp, cover, judged) = model::expected_with_cover(sc);
    let obs = interp::execute(sc);
    let mismatch = if judged { trace::compare(&exp, &obs.traces) } else { None };
    let nontrivial = obs.traces.iter().flatten().any(|e| {
        matches!(e, Ev::Caught(Some(_)) | Ev::ThreadEnd { payload: Some(_), .. } | Ev::DropSlot { .. } | Ev::SessionDrop { .. } | Ev::ExtendCaught { .. })
    });
    RunResult { mismatch, trace_digest: digest_traces(&obs.traces), nontrivial, obs, cover }
}

fn scenario_digest(sc: &Scenario) -> u64 {
    Fnv::of_str(&serde_json::to_string(sc).expect("scenario serialises"))
}

fn record_stats(st: &mut Stats, sc: &Scenario, r: &RunResult) {
    st.inc("runs");
    st.add("steps", r.obs.steps);
    st.inc(&format!("threads/{}", sc.threads.len()));
    if r.nontrivial {
        st.inc("nontrivial_runs");
        st.distinct("scenario_nontrivial", scenario_digest(sc));
    }
    st.distinct("trace", r.trace_digest);
    if sc.threads.len() > 1 {
        let mut f = Fnv::new();
        f.bytes(&r.obs.schedule_taken);
        f.u64(scenario_digest(sc));
        st.distinct("interleaving", f.finish());
        let mut g = Fnv::new();
        g.bytes(&r.obs.schedule_taken);
        st.distinct("schedule_shape", g.finish());
        st.add("context_switches", r.obs.schedule_taken.windows(2).filter(|w| w[0] != w[1]).count() as u64);
        st.add("overlap_events", r.obs.overlap_events);
        st.add("fault/parked_inside_panic_hook", r.obs.hook_parks);
        if r.obs.overlap_events > 0 {
            st.inc("runs_with_overlap");
        }
    }
    for c in &r.cover {
        st.inc(&format!("cover/{}", c));
    }
    for t in &r.obs.traces {
        for e in t {
            match e {
                Ev::DropSlot { unwinding: true, .. } => st.inc("fault/drop_during_unwind"),
                Ev::DropSlot { unwinding: false, .. } => st.inc("fault/armed_drop_not_unwinding"),
                Ev::SessionDrop { unwinding: true, .. } => st.inc("fault/session_unfinished_drop_during_unwind"),
                Ev::SessionDrop { unwinding: false, .. } => st.inc("fault/session_unfinished_drop_not_unwinding"),
                Ev::SessionFinish { unwinding: true, .. } => st.inc("fault/complete_session_in_destructor_during_unwind"),
                Ev::GuardYield { unwinding: true } => st.inc("fault/parked_mid_unwind"),
                Ev::ExtendCaught { .. } => st.inc("fault/extend_iterator_panic_caught_locally"),
                Ev::Caught(Some(trace::Payload::Sim(_))) | Ev::ThreadEnd { payload: Some(trace::Payload::Sim(_)), .. } => {
                    st.inc("fault/injected_panic_reached_catch")
                }
                Ev::Caught(Some(trace::Payload::Msg(_))) | Ev::ThreadEnd { payload: Some(trace::Payload::Msg(_)), .. } => {
                    st.inc("fault/bomb_reached_catch")
                }
                Ev::Caught(None) => st.inc("event/catch_scope_clean"),
                _ => {}
            }
        }
    }
    fn count_stmts(b: &[Stmt], st: &mut Stats) {
        for s in b {
            match s {
                Stmt::Panic(_) => st.inc("configured/caller_panic"),
                Stmt::HandleIn(_, Outcome::Panic(_)) => st.inc("configured/handle_in_closure_panic"),
                Stmt::Extend { panic_after: Some(_), .. } => st.inc("configured/extend_iterator_panic"),
                Stmt::Scope(b) | Stmt::CatchScope(b) => count_stmts(b, st),
                _ => {}
            }
        }
    }
    for t in &sc.threads {
        count_stmts(t, st);
    }
}

// ---------------------------------------------------------------------------------------------
// minimisation

fn paths(b: &[Stmt], prefix: &mut Vec<usize>, out: &mut Vec<Vec<usize>>) {
    for (i, s) in b.iter().enumerate() {
        prefix.push(i);
        out.push(prefix.clone());
        if let Stmt::Scope(inner) | Stmt::CatchScope(inner) = s {
            paths(inner, prefix, out);
        }
        prefix.pop();
    }
}

fn remove_at(b: &mut Vec<Stmt>, path: &[usize]) -> bool {
    if path.len() == 1 {
        if path[0] < b.len() {
            b.remove(path[0]);
            return true;
        }
        return false;
    }
    match b.get_mut(path[0]) {
        Some(Stmt::Scope(inner)) | Some(Stmt::CatchScope(inner)) => remove_at(inner, &path[1..]),
        _ => false,
    }
}

fn simplify_errs(b: &mut [Stmt], changed: &mut bool) {
    fn simp(e: &mut ErrSpec, changed: &mut bool) {
        if !matches!(e, ErrSpec::Single(_)) {
            let id = e.max_id();
            *e = ErrSpec::Single(id);
            *changed = true;
        }
    }
    for s in b {
        match s {
            Stmt::Push(_, e) | Stmt::HandleErr(_, e) | Stmt::HandleIn(_, Outcome::Err(e)) => simp(e, changed),
            Stmt::Extend { items, .. } => items.iter_mut().for_each(|e| simp(e, changed)),
            Stmt::GuardSession { errs, .. } => errs.iter_mut().for_each(|e| simp(e, changed)),
            Stmt::Scope(inner) | Stmt::CatchScope(inner) => simplify_errs(inner, changed),
            _ => {}
        }
    }
}

fn rule_family(rule: &str) -> &str {
    rule
}

/// Greedy structural minimisation: keep a candidate while the same rule still fails.
fn minimise(sc: &Scenario, rule: &str, budget: usize, fails: &mut dyn FnMut(&Scenario) -> Option<String>) -> (Scenario, usize) {
    let mut cur = sc.clone();
    let mut steps = 0usize;
    let mut same = |c: &Scenario, steps: &mut usize| -> bool {
        *steps += 1;
        matches!(fails(c), Some(r) if rule_family(&r) == rule_family(rule))
    };
    let mut progress = true;
    while progress && steps < budget {
        progress = false;
        // drop whole threads
        let mut t = 0;
        while cur.threads.len() > 1 && t < cur.threads.len() && steps < budget {
            let mut c = cur.clone();
            c.threads.remove(t);
            if same(&c, &mut steps) {
                cur = c;
                progress = true;
            } else {
                t += 1;
            }
        }
        // drop statements (with their subtrees), last first
        for t in 0..cur.threads.len() {
            let mut ps = Vec::new();
            paths(&cur.threads[t], &mut Vec::new(), &mut ps);
            for p in ps.iter().rev() {
                if steps >= budget {
                    break;
                }
                let mut c = cur.clone();
                if remove_at(&mut c.threads[t], p) && same(&c, &mut steps) {
                    cur = c;
                    progress = true;
                }
            }
        }
        // simpler error values
        {
            let mut c = cur.clone();
            let mut changed = false;
            for t in c.threads.iter_mut() {
                simplify_errs(t, &mut changed);
            }
            if changed && steps < budget && same(&c, &mut steps) {
                cur = c;
                progress = true;
            }
        }
        // shorter / simpler schedule
        if !cur.schedule.is_empty() && steps < budget {
            let mut c = cur.clone();
            c.schedule.clear();
            if same(&c, &mut steps) {
                cur = c;
                progress = true;
            } else {
                let mut k = cur.schedule.len();
                while k > 0 && steps < budget {
                    let mut c = cur.clone();
                    c.schedule.truncate(k - 1);
                    if same(&c, &mut steps) {
                        cur = c;
                        progress = true;
                        k = cur.schedule.len();
                    } else {
                        break;
                    }
                }
            }
        }
    }
    (cur, steps)
}

fn in_process_fails(c: &Scenario) -> Option<String> {
    run_scenario(c).mismatch.map(|m| m.rule)
}

/// One child process per candidate: for violations that kill the process.
fn isolated_fails(c: &Scenario) -> Option<String> {
    let exe = std::env::current_exe().ok()?;
    let mut child = std::process::Command::new(exe)
        .arg("check-stdin")
        .stdin(std::process::Stdio::piped())
        .stdout(std::process::Stdio::piped())
        .stderr(std::process::Stdio::null())
        .spawn()
        .ok()?;
    child.stdin.take()?.write_all(serde_json::to_string(c).ok()?.as_bytes()).ok()?;
    let out = child.wait_with_output().ok()?;
    if !out.status.success() && out.status.code().is_none() {
        return Some("C05.R8/abort".to_string());
    }
    let s = String::from_utf8_lossy(&out.stdout);
    let v: serde_json::Value = serde_json::from_str(s.trim()).ok()?;
    v.get("rule").and_then(|r| r.as_str()).map(|s| s.to_string())
}

fn make_replay(sc_orig: &Scenario, sc_min: &Scenario, m: &Mismatch, seed: Option<u64>, index: Option<u64>, steps: usize) -> Replay {
    let r = run_scenario(sc_min);
    // a violation that depends on something outside the scenario (e.g. state a mutant shares between
    // the parallel simulations of this process) may not fail again: keep what was seen, say so
    let (sc_min, r, replayable) = if r.mismatch.is_some() { (sc_min, r, true) } else { (sc_orig, run_scenario(sc_orig), false) };
    let seen = r.mismatch.clone().unwrap_or_else(|| m.clone());
    Replay {
        format: 1,
        property: "C05".into(),
        rule: m.rule.clone(),
        sim: "acc".into(),
        verif_seed: seed,
        run_index: index,
        scenario: sc_min.clone(),
        expected: seen.expected.clone(),
        observed: seen.observed.clone(),
        observed_digest: format!("{:016x}", r.trace_digest),
        minimised: json!({
            "from": {"threads": sc_orig.threads.len(), "statements": sc_orig.stmt_count(), "schedule": sc_orig.schedule.len()},
            "to": {"threads": sc_min.threads.len(), "statements": sc_min.stmt_count(), "schedule": sc_min.schedule.len()},
            "steps": steps,
            "fails_again_when_rerun_in_isolation": replayable && r.mismatch.is_some()
        }),
    }
}

// ---------------------------------------------------------------------------------------------
// sweep: every single-thread history of length <= L over a fixed alphabet, on one accumulator

fn sweep_alphabet() -> Vec<Stmt> {
    let s = Slot { frame: 1, idx: 0 };
    vec![
        Stmt::Push(s, ErrSpec::Single(1)),
        Stmt::Push(s, ErrSpec::Bundle(vec![ErrSpec::Single(2), ErrSpec::Located(3, "b".into())], Some("a".into()))),
        Stmt::HandleOk(s, 4),
        Stmt::HandleErr(s, ErrSpec::Located(5, "x".into())),
        Stmt::HandleIn(s, Outcome::Ok(6)),
        Stmt::HandleIn(s, Outcome::Err(ErrSpec::Single(7))),
        Stmt::HandleIn(s, Outcome::Panic(8)),
        Stmt::Extend { slot: s, items: vec![ErrSpec::Single(9), ErrSpec::Single(10)], panic_after: None, catch_locally: false },
        Stmt::Extend { slot: s, items: vec![ErrSpec::Single(11), ErrSpec::Single(12)], panic_after: Some((1, 13)), catch_locally: false },
        Stmt::Extend { slot: s, items: vec![ErrSpec::Single(14), ErrSpec::Single(15)], panic_after: Some((1, 16)), catch_locally: true },
        Stmt::Checkpoint(s),
        Stmt::Finish(s),
        Stmt::FinishWith(s, 17),
        Stmt::IntoInner(s),
        Stmt::Drop(s),
        Stmt::Panic(18),
        Stmt::GuardSession { errs: vec![ErrSpec::Single(19)], finish: false },
        // very many at once
        Stmt::Extend { slot: s, items: (200..330).map(ErrSpec::Single).collect(), panic_after: None, catch_locally: false },
    ]
}

fn sweep_scenario(alphabet: &[Stmt], word: &[usize]) -> Scenario {
    // the constructor alternates with the word (both public constructors must arm the bomb alike)
    let ctor = if word.iter().sum::<usize>() % 2 == 0 { Stmt::New } else { Stmt::NewDefault };
    let mut inner = vec![ctor];
    inner.extend(word.iter().map(|i| alphabet[*i].clone()));
    // second catch scope: after whatever happened, a fresh unfinished accumulator must still explode
    Scenario { threads: vec![vec![Stmt::CatchScope(inner), Stmt::CatchScope(vec![if word.len() % 2 == 0 { Stmt::NewDefault } else { Stmt::New }])]], schedule: vec![] }
}

fn nth_word(mut n: u64, base: usize, len: usize) -> Vec<usize> {
    let mut w = vec![0; len];
    for slot in w.iter_mut().rev() {
        *slot = (n % base as u64) as usize;
        n /= base as u64;
    }
    w
}

// ---------------------------------------------------------------------------------------------

fn arg<'a>(args: &'a [String], name: &str) -> Option<&'a str> {
    args.iter().position(|a| a == name).and_then(|i| args.get(i + 1)).map(|s| s.as_str())
}

fn install_silent_panic_hook() {
    // silent; for simulated caller threads the start of a panic is a scheduler point
    std::panic::set_hook(Box::new(|_| interp::panic_hook_point()));
}

struct Acc {
    stats: Stats,
    failures: Vec<Failure>,
    digests: Vec<(u64, u64, u64, bool)>,
    samples: BTreeMap<&'static str, (u64, Scenario)>,
}

fn sample_kind(sc: &Scenario, r: &RunResult) -> &'static str {
    if sc.threads.len() > 1 && r.obs.overlap_events > 0 {
        "multi_thread_with_overlap"
    } else if r.nontrivial {
        "with_unwind_or_bomb"
    } else {
        "clean"
    }
}

fn cmd_batch(args: &[String], sweep: bool) -> i32 {
    install_silent_panic_hook();
    let seed: u64 = arg(args, "--seed").map(|s| s.parse().expect("--seed")).unwrap_or(1);
    let start: u64 = arg(args, "--start").map(|s| s.parse().expect("--start")).unwrap_or(0);
    let workers: usize = arg(args, "--workers").map(|s| s.parse().expect("--workers")).unwrap_or(16);
    let max_failures: usize = arg(args, "--max-failures").map(|s| s.parse().expect("--max-failures")).unwrap_or(3);
    let want_digests = arg(args, "--digests").map(|s| s.to_string());
    let alphabet = sweep_alphabet();
    let max_len: usize = arg(args, "--max-len").map(|s| s.parse().expect("--max-len")).unwrap_or(4);
    let (count, sweep_offsets): (u64, Vec<(usize, u64)>) = if sweep {
        let mut offs = Vec::new();
        let mut total = 0u64;
        for len in 0..=max_len {
            offs.push((len, total));
            total += (alphabet.len() as u64).pow(len as u32);
        }
        (total, offs)
    } else {
        (arg(args, "--count").map(|s| s.parse().expect("--count")).unwrap_or(1000), Vec::new())
    };
    let progress = arg(args, "--progress").map(|p| std::fs::OpenOptions::new().create(true).write(true).truncate(true).open(p).expect("progress file"));
    let cfg = PoolCfg { workers, stack_bytes: 8 << 20, retire_after: 100_000, chunk: 64, progress, beats: None, epoch: std::time::Instant::now() };
    let stop = AtomicBool::new(false);
    let nfail = Mutex::new(0usize);
    let t0 = std::time::Instant::now();
    let scenario_for = |i: u64| -> Scenario {
        if sweep {
            let (len, off) = *sweep_offsets.iter().rev().find(|(_, off)| *off <= i).expect("offset");
            sweep_scenario(&alphabet, &nth_word(i - off, alphabet.len(), len))
        } else {
            gen::generate(run_seed(seed, i))
        }
    };
    let accs = run_parallel(
        start,
        count,
        &cfg,
        &stop,
        || Acc { stats: Stats::new(), failures: Vec::new(), digests: Vec::new(), samples: BTreeMap::new() },
        |i, acc: &mut Acc| {
            let sc = scenario_for(i);
            let r = run_scenario(&sc);
            record_stats(&mut acc.stats, &sc, &r);
            if want_digests.is_some() {
                acc.digests.push((i, scenario_digest(&sc), r.trace_digest, r.mismatch.is_some()));
            }
            let kind = sample_kind(&sc, &r);
            match acc.samples.get(kind) {
                Some((j, _)) if *j <= i => {}
                _ => {
                    acc.samples.insert(kind, (i, sc.clone()));
                }
            }
            if let Some(m) = r.mismatch {
                acc.failures.push(Failure { index: Some(i), mismatch: m, scenario: sc });
                let mut n = nfail.lock().unwrap();
                *n += 1;
                if *n >= max_failures {
                    stop.store(true, Ordering::Relaxed);
                }
            }
        },
    );
    let mut stats = Stats::new();
    let mut failures = Vec::new();
    let mut digests = Vec::new();
    let mut samples: BTreeMap<&'static str, (u64, Scenario)> = BTreeMap::new();
    for a in accs {
        stats.merge(a.stats);
        failures.extend(a.failures);
        digests.extend(a.digests);
        for (k, (i, sc)) in a.samples {
            match samples.get(k) {
                Some((j, _)) if *j <= i => {}
                _ => {
                    samples.insert(k, (i, sc));
                }
            }
        }
    }
    failures.sort_by_key(|f| f.index);
    if let Some(path) = want_digests {
        digests.sort();
        let mut f = std::io::BufWriter::new(std::fs::File::create(path).expect("digest file"));
        for (i, s, t, bad) in digests {
            writeln!(f, "{} {:016x} {:016x} {}", i, s, t, bad as u8).unwrap();
        }
    }
    // minimise the first failures in-process (violations that kill the process are handled by the driver)
    let mut replays = Vec::new();
    for f in failures.iter().take(max_failures) {
        let (min, steps) = minimise(&f.scenario, &f.mismatch.rule, 2000, &mut in_process_fails);
        replays.push(make_replay(&f.scenario, &min, &f.mismatch, Some(seed), f.index, steps));
    }
    let distinct: BTreeMap<String, u64> = stats.sets.iter().map(|(k, v)| (k.clone(), v.len() as u64)).collect();
    let out = json!({
        "sim": "acc",
        "mode": if sweep { "sweep" } else { "batch" },
        "seed": seed, "start": start, "count": count,
        "runs": stats.get("runs"),
        "completed": !stop.load(Ordering::Relaxed),
        "wall_s": t0.elapsed().as_secs_f64(),
        "counters": stats.counters,
        "distinct": distinct,
        "failures": failures.len(),
        "replays": replays,
        "samples": samples.iter().map(|(k, (i, sc))| json!({"kind": k, "index": i, "scenario": sc})).collect::<Vec<_>>(),
    });
    println!("{}", out);
    if failures.is_empty() {
        0
    } else {
        1
    }
}

fn cmd_replay(path: &str) -> i32 {
    install_silent_panic_hook();
    let text = std::fs::read_to_string(path).expect("replay file readable");
    let rp: Replay = serde_json::from_str(&text).expect("replay file parses");
    let r = run_scenario(&rp.scenario);
    match r.mismatch {
        Some(m) => {
            let same = m.rule == rp.rule && format!("{:016x}", r.trace_digest) == rp.observed_digest;
            println!("rule={} expected={} observed={}", m.rule, m.expected, m.observed);
            println!("reproduced_exactly={}", same);
            println!("VIOLATION property=C05 replay={}", path);
            1
        }
        None => {
            println!("no violation: scenario of {} satisfies every C05 rule on this tree", path);
            0
        }
    }
}

fn cmd_one(args: &[String]) -> i32 {
    install_silent_panic_hook();
    let seed: u64 = arg(args, "--seed").map(|s| s.parse().expect("--seed")).unwrap_or(1);
    let index: u64 = arg(args, "--index").map(|s| s.parse().expect("--index")).unwrap_or(0);
    let sc = gen::generate(run_seed(seed, index));
    let exp = model::expected(&sc);
    let r = run_scenario(&sc);
    println!("{}", serde_json::to_string_pretty(&json!({"scenario": sc, "expected": exp, "observed": r.obs.traces, "schedule_taken": r.obs.schedule_taken, "mismatch": r.mismatch})).unwrap());
    r.mismatch.is_some() as i32
}

fn cmd_check_stdin() -> i32 {
    install_silent_panic_hook();
    let mut s = String::new();
    std::io::Read::read_to_string(&mut std::io::stdin(), &mut s).expect("stdin");
    let sc: Scenario = serde_json::from_str(&s).expect("scenario parses");
    let r = run_scenario(&sc);
    println!("{}", json!({"rule": r.mismatch.map(|m| m.rule)}));
    0
}

/// For process-killing violations: the driver gives (seed, index); we regenerate, minimise with one
/// child per candidate, and print a replay.
fn cmd_minimise_isolated(args: &[String]) -> i32 {
    let seed: u64 = arg(args, "--seed").map(|s| s.parse().expect("--seed")).unwrap_or(1);
    let index: u64 = arg(args, "--index").map(|s| s.parse().expect("--index")).unwrap_or(0);
    let sc = gen::generate(run_seed(seed, index));
    let rule = match isolated_fails(&sc) {
        Some(r) => r,
        None => {
            println!("{}", json!({"reproduced": false}));
            return 0;
        }
    };
    let (min, steps) = minimise(&sc, &rule, 300, &mut isolated_fails);
    let rp = Replay {
        format: 1,
        property: "C05".into(),
        rule: rule.clone(),
        sim: "acc".into(),
        verif_seed: Some(seed),
        run_index: Some(index),
        scenario: min.clone(),
        expected: "process survives".into(),
        observed: "child process died or reported a violation".into(),
        observed_digest: String::new(),
        minimised: json!({"from": {"statements": sc.stmt_count()}, "to": {"statements": min.stmt_count()}, "steps": steps}),
    };
    println!("{}", json!({"reproduced": true, "replay": rp}));
    1
}

fn main() {
    let args: Vec<String> = std::env::args().collect();
    let code = match args.get(1).map(|s| s.as_str()) {
        Some("batch") => cmd_batch(&args, false),
        Some("sweep") => cmd_batch(&args, true),
        Some("one") => cmd_one(&args),
        Some("replay") => cmd_replay(args.get(2).expect("replay FILE")),
        Some("check-stdin") => cmd_check_stdin(),
        Some("minimise-isolated") => cmd_minimise_isolated(&args),
        _ => {
            eprintln!("usage: accsim batch|sweep|one|replay|minimise-isolated ...");
            2
        }
    };
    std::process::exit(code);
}
