//! The real thing: interprets a program tree against real `darling_core::error::Accumulator`
//! values, with real panics, real unwinding and real OS threads whose interleaving is decided by the
//! baton scheduler in `sched.rs`.

use std::any::Any;
use std::panic::{catch_unwind, panic_any, AssertUnwindSafe};
use std::thread;

use darling_core::error::Accumulator;
use darling_core::Error;

use crate::scenario::{ErrSpec, Outcome, Scenario, Slot, Stmt};
use simcore::sched::Sched;
use crate::trace::{Ev, FinishRes, Payload};

/// Payload of every panic the simulator injects.
pub struct SimPanic(pub u32);

/// The leaf for id `n`. Most are `Error::custom("F<n>")`; some ids are other kinds of error (an
/// accumulator records errors whatever their kind), all carrying the id so that every leaf stays
/// attributable.
pub fn leaf(id: u32) -> Error {
    let name = format!("F{}", id);
    match id % 7 {
        0 => Error::missing_field(&name),
        3 => Error::unknown_field(&name),
        5 => match (id / 7) % 4 {
            0 => Error::duplicate_field(&name),
            1 => Error::unknown_value(&name),
            2 => Error::unsupported_shape(&name),
            _ => Error::unexpected_type(&name),
        },
        _ => Error::custom(name),
    }
}

/// Display of that leaf when it has no location: darling's wording for the kind, read from darling so
/// that a reworded message is not a difference.
pub fn leaf_text(id: u32) -> String {
    leaf(id).to_string()
}

/// Some leaves carry a span: token `id % 32` of a 32-token text parsed once per thread. A recorded
/// error is recorded with its span; the column of the token is appended to the observed / expected
/// leaf text as `@<column>`.
pub fn span_slot(id: u32) -> Option<usize> {
    if id % 3 == 1 {
        Some((id % 32) as usize)
    } else {
        None
    }
}

pub fn slot_column(slot: usize) -> usize {
    4 * slot
}

fn span_of_slot(slot: usize) -> proc_macro2::Span {
    thread_local! {
        static SPANS: Vec<proc_macro2::Span> = {
            let text: String = (0..32).map(|i| format!("t{:02} ", i)).collect();
            let ts: proc_macro2::TokenStream = text.parse().expect("span text");
            ts.into_iter().map(|t| t.span()).collect()
        };
    }
    SPANS.with(|s| s[slot])
}

fn with_leaf_span(id: u32, e: Error) -> Error {
    match span_slot(id) {
        Some(slot) => e.with_span(&span_of_slot(slot)),
        None => e,
    }
}

pub fn build(e: &ErrSpec) -> Error {
    match e {
        ErrSpec::Single(id) => with_leaf_span(*id, leaf(*id)),
        ErrSpec::Located(id, seg) => with_leaf_span(*id, leaf(*id)).at(seg),
        ErrSpec::Bundle(children, at) => {
            let b = Error::multiple(children.iter().map(build).collect());
            match at {
                Some(seg) => b.at(seg),
                None => b,
            }
        }
    }
}

pub fn leaves_of(e: Error) -> Vec<String> {
    e.flatten()
        .into_iter()
        .map(|l| match l.explicit_span() {
            Some(sp) => format!("{} @{}", l, sp.start().column),
            None => l.to_string(),
        })
        .collect()
}

pub fn payload_of(p: Box<dyn Any + Send>) -> Payload {
    if let Some(s) = p.downcast_ref::<SimPanic>() {
        Payload::Sim(s.0)
    } else if let Some(s) = p.downcast_ref::<&'static str>() {
        Payload::Msg((*s).to_string())
    } else if let Some(s) = p.downcast_ref::<String>() {
        Payload::Msg(s.clone())
    } else {
        Payload::Other
    }
}

fn payload_msg(p: Box<dyn Any + Send>) -> String {
    match payload_of(p) {
        Payload::Msg(m) => m,
        Payload::Sim(id) => format!("SimPanic({})", id),
        _ => "<non-string payload>".to_string(),
    }
}

fn finish_res<T>(r: darling_core::Result<T>, value: impl FnOnce(T) -> Option<u32>) -> FinishRes {
    match r {
        Ok(v) => FinishRes::Ok(value(v)),
        Err(e) => {
            let len = e.len();
            // top-level children of the returned error (compared only when >= 2 entries were recorded)
            let top = Some(e.clone().into_iter().map(leaves_of).collect());
            FinishRes::Err { len, leaves: leaves_of(e), top }
        }
    }
}

enum Entry {
    Acc(Option<Accumulator>),
    YieldGuard,
    Session { errs: Vec<ErrSpec>, finish: bool },
}

pub struct Interp<'s> {
    tid: usize,
    frames: Vec<Vec<Entry>>,
    pub trace: Vec<Ev>,
    sched: Option<&'s Sched>,
    pub steps: u64,
}

struct FaultyIter {
    items: std::vec::IntoIter<Error>,
    yielded: usize,
    panic_after: Option<(usize, u32)>,
}

impl Iterator for FaultyIter {
    type Item = Error;
    fn next(&mut self) -> Option<Error> {
        if let Some((j, id)) = self.panic_after {
            if self.yielded == j {
                panic_any(SimPanic(id));
            }
        }
        self.yielded += 1;
        self.items.next()
    }

    /// Honest size hints of three shapes, chosen by the number of items: unknown `(0, None)`, exact, or a
    /// lower bound only. (An iterator that is going to panic stays with "unknown".)
    fn size_hint(&self) -> (usize, Option<usize>) {
        let left = self.items.len();
        if self.panic_after.is_some() {
            return (0, None);
        }
        match (left + self.yielded) % 3 {
            0 => (0, None),
            1 => (left, Some(left)),
            _ => (left / 2, None),
        }
    }
}

struct FrameGuard<'i, 's>(&'i mut Interp<'s>);

impl Drop for FrameGuard<'_, '_> {
    fn drop(&mut self) {
        struct Pop<'x, 's>(&'x mut Interp<'s>);
        impl Drop for Pop<'_, '_> {
            fn drop(&mut self) {
                self.0.frames.pop();
            }
        }
        let depth = self.0.frames.len() - 1;
        let p = Pop(self.0);
        p.0.drop_rev(depth);
    }
}

impl<'s> Interp<'s> {
    pub fn new(tid: usize, sched: Option<&'s Sched>) -> Self {
        Interp { tid, frames: Vec::new(), trace: Vec::new(), sched, steps: 0 }
    }

    /// Drop the entries of frame `depth` in reverse creation order, exactly like Rust drops locals:
    /// if one destructor panics the remaining ones still run, during that unwind.
    fn drop_rev(&mut self, depth: usize) {
        let entry = match self.frames[depth].pop() {
            Some(e) => e,
            None => return,
        };
        let idx = self.frames[depth].len();
        struct Cont<'x, 's>(&'x mut Interp<'s>, usize);
        impl Drop for Cont<'_, '_> {
            fn drop(&mut self) {
                self.0.drop_rev(self.1)
            }
        }
        let cont = Cont(self, depth);
        cont.0.drop_entry(entry, Slot { frame: depth, idx });
    }

    fn drop_entry(&mut self, entry: Entry, slot: Slot) {
        match entry {
            Entry::Acc(None) => {}
            Entry::Acc(Some(acc)) => self.drop_acc(acc, Some(slot)),
            Entry::YieldGuard => {
                let unwinding = thread::panicking();
                self.trace.push(Ev::GuardYield { unwinding });
                if let Some(s) = self.sched {
                    s.yield_point(self.tid, unwinding);
                }
            }
            Entry::Session { errs, finish } => {
                let unwinding = thread::panicking();
                let mut a = Error::accumulator();
                for e in &errs {
                    a.push(build(e));
                }
                if finish {
                    let r = a.finish();
                    self.trace.push(Ev::SessionFinish { unwinding, result: finish_res(r, |_| None) });
                } else {
                    self.drop_acc(a, None);
                }
            }
        }
    }

    /// Drop an accumulator that may be armed. While the thread is unwinding, a panic from the
    /// destructor (which would abort the process in production) is observed through an inner
    /// catch_unwind; `thread::panicking()` stays true throughout.
    fn drop_acc(&mut self, acc: Accumulator, slot: Option<Slot>) {
        let unwinding = thread::panicking();
        if unwinding {
            let r = catch_unwind(AssertUnwindSafe(move || drop(acc)));
            let nested = r.err().map(payload_msg);
            self.trace.push(match slot {
                Some(slot) => Ev::DropSlot { slot, unwinding, nested },
                None => Ev::SessionDrop { unwinding, nested },
            });
        } else {
            self.trace.push(match slot {
                Some(slot) => Ev::DropSlot { slot, unwinding, nested: None },
                None => Ev::SessionDrop { unwinding, nested: None },
            });
            drop(acc);
        }
    }

    fn has(&self, s: Slot) -> bool {
        matches!(self.frames.get(s.frame).and_then(|f| f.get(s.idx)), Some(Entry::Acc(Some(_))))
    }

    fn acc_mut(&mut self, s: Slot) -> &mut Accumulator {
        match &mut self.frames[s.frame][s.idx] {
            Entry::Acc(Some(a)) => a,
            _ => unreachable!("checked by has()"),
        }
    }

    fn take(&mut self, s: Slot) -> Accumulator {
        match &mut self.frames[s.frame][s.idx] {
            Entry::Acc(a) => a.take().expect("checked by has()"),
            _ => unreachable!("checked by has()"),
        }
    }

    fn put(&mut self, s: Slot, a: Accumulator) {
        self.frames[s.frame][s.idx] = Entry::Acc(Some(a));
    }

    pub fn run_block(&mut self, stmts: &[Stmt]) {
        self.frames.push(Vec::new());
        let g = FrameGuard(self);
        for s in stmts {
            g.0.exec(s);
        }
    }

    fn push_entry(&mut self, e: Entry) -> Slot {
        let depth = self.frames.len() - 1;
        self.frames[depth].push(e);
        Slot { frame: depth, idx: self.frames[depth].len() - 1 }
    }

    fn exec(&mut self, s: &Stmt) {
        self.steps += 1;
        if let Some(sc) = self.sched {
            sc.note_step(self.tid);
        }
        match s {
            Stmt::New => {
                let slot = self.push_entry(Entry::Acc(Some(Error::accumulator())));
                self.trace.push(Ev::New(slot));
            }
            Stmt::NewDefault => {
                let slot = self.push_entry(Entry::Acc(Some(darling_core::error::Accumulator::default())));
                self.trace.push(Ev::New(slot));
            }
            Stmt::Push(slot, e) => {
                if !self.has(*slot) {
                    return self.trace.push(Ev::Skipped);
                }
                self.acc_mut(*slot).push(build(e));
                self.trace.push(Ev::Push(*slot));
            }
            Stmt::HandleOk(slot, v) => {
                if !self.has(*slot) {
                    return self.trace.push(Ev::Skipped);
                }
                let ret = self.acc_mut(*slot).handle(Ok::<u32, Error>(*v));
                self.trace.push(Ev::Handle { slot: *slot, ret });
            }
            Stmt::HandleErr(slot, e) => {
                if !self.has(*slot) {
                    return self.trace.push(Ev::Skipped);
                }
                let ret = self.acc_mut(*slot).handle(Err::<u32, Error>(build(e)));
                self.trace.push(Ev::Handle { slot: *slot, ret });
            }
            Stmt::HandleIn(slot, outcome) => {
                if !self.has(*slot) {
                    return self.trace.push(Ev::Skipped);
                }
                let mut calls = 0u32;
                let ret = self.acc_mut(*slot).handle_in(|| {
                    calls += 1;
                    match outcome {
                        Outcome::Ok(v) => Ok(*v),
                        Outcome::Err(e) => Err(build(e)),
                        Outcome::Panic(id) => panic_any(SimPanic(*id)),
                    }
                });
                self.trace.push(Ev::HandleIn { slot: *slot, calls, ret });
            }
            Stmt::Extend { slot, items, panic_after, catch_locally } => {
                if !self.has(*slot) {
                    return self.trace.push(Ev::Skipped);
                }
                let effective_panic = panic_after.filter(|(j, _)| *j <= items.len());
                let iter = FaultyIter {
                    items: items.iter().map(build).collect::<Vec<_>>().into_iter(),
                    yielded: 0,
                    panic_after: effective_panic,
                };
                if effective_panic.is_some() && *catch_locally {
                    let mut acc = self.take(*slot);
                    let r = catch_unwind(AssertUnwindSafe(|| acc.extend(iter)));
                    match r {
                        Ok(()) => {
                            self.put(*slot, acc);
                            self.trace.push(Ev::ExtendDone(*slot));
                        }
                        Err(p) => {
                            let recorded: Vec<Vec<String>> = acc.into_inner().into_iter().map(leaves_of).collect();
                            self.trace.push(Ev::ExtendCaught { slot: *slot, payload: payload_of(p), recorded, min_len: 0 });
                        }
                    }
                } else {
                    self.acc_mut(*slot).extend(iter);
                    self.trace.push(Ev::ExtendDone(*slot));
                }
            }
            Stmt::Checkpoint(slot) => {
                if !self.has(*slot) {
                    return self.trace.push(Ev::Skipped);
                }
                let acc = self.take(*slot);
                match acc.checkpoint() {
                    Ok(fresh) => {
                        self.put(*slot, fresh);
                        self.trace.push(Ev::Checkpoint { slot: *slot, result: FinishRes::Ok(None) });
                    }
                    Err(e) => {
                        self.trace.push(Ev::Checkpoint { slot: *slot, result: finish_res::<()>(Err(e), |_| None) });
                    }
                }
            }
            Stmt::Finish(slot) => {
                if !self.has(*slot) {
                    return self.trace.push(Ev::Skipped);
                }
                let acc = self.take(*slot);
                let r = acc.finish();
                self.trace.push(Ev::Finish { slot: *slot, result: finish_res(r, |_| None) });
            }
            Stmt::FinishWith(slot, v) => {
                if !self.has(*slot) {
                    return self.trace.push(Ev::Skipped);
                }
                let acc = self.take(*slot);
                let r = acc.finish_with(*v);
                self.trace.push(Ev::Finish { slot: *slot, result: finish_res(r, Some) });
            }
            Stmt::IntoInner(slot) => {
                if !self.has(*slot) {
                    return self.trace.push(Ev::Skipped);
                }
                let acc = self.take(*slot);
                let entries = acc.into_inner().into_iter().map(leaves_of).collect();
                self.trace.push(Ev::IntoInner { slot: *slot, entries });
            }
            Stmt::Drop(slot) => {
                if !self.has(*slot) {
                    return self.trace.push(Ev::Skipped);
                }
                let acc = self.take(*slot);
                self.drop_acc(acc, Some(*slot));
            }
            Stmt::Panic(id) => panic_any(SimPanic(*id)),
            Stmt::Scope(b) => self.run_block(b),
            Stmt::CatchScope(b) => {
                let r = catch_unwind(AssertUnwindSafe(|| self.run_block(b)));
                self.trace.push(Ev::Caught(r.err().map(payload_of)));
            }
            Stmt::Yield => {
                if let Some(sc) = self.sched {
                    sc.yield_point(self.tid, false);
                }
            }
            Stmt::GuardYield => {
                self.push_entry(Entry::YieldGuard);
            }
            Stmt::GuardSession { errs, finish } => {
                self.push_entry(Entry::Session { errs: errs.clone(), finish: *finish });
            }
        }
    }
}

pub struct Observed {
    pub traces: Vec<Vec<Ev>>,
    pub schedule_taken: Vec<u8>,
    pub overlap_events: u64,
    /// scheduler points taken inside the panic hook (a thread parked at the instant its panic started)
    pub hook_parks: u64,
    pub steps: u64,
}

fn run_thread(tid: usize, prog: &[Stmt], sched: Option<&Sched>) -> (Vec<Ev>, u64) {
    let mut it = Interp::new(tid, sched);
    let r = catch_unwind(AssertUnwindSafe(|| it.run_block(prog)));
    let payload = r.err().map(payload_of);
    it.trace.push(Ev::ThreadEnd { payload, still_panicking: thread::panicking() });
    (it.trace, it.steps)
}

/// Persistent pool of simulated caller threads (creating OS threads per run makes sixteen
/// parallel simulations fight over the kernel's address-space lock). A thread's panicking state is
/// per unwind, so reusing a thread after its root catch_unwind is sound; C05.R10 checks exactly that
/// nothing sticks.
struct Job {
    tid: usize,
    prog: Vec<Stmt>,
    sched: std::sync::Arc<Sched>,
}

struct SimThreads {
    txs: Vec<std::sync::mpsc::Sender<Job>>,
    rx: std::sync::mpsc::Receiver<(usize, Vec<Ev>, u64)>,
    back: std::sync::mpsc::Sender<(usize, Vec<Ev>, u64)>,
}

impl SimThreads {
    fn new() -> Self {
        let (back, rx) = std::sync::mpsc::channel();
        SimThreads { txs: Vec::new(), rx, back }
    }
    fn ensure(&mut self, n: usize) {
        while self.txs.len() < n {
            let (tx, jobs) = std::sync::mpsc::channel::<Job>();
            let back = self.back.clone();
            thread::Builder::new()
                .stack_size(4 << 20)
                .spawn(move || {
                    while let Ok(job) = jobs.recv() {
                        job.sched.start(job.tid);
                        CURRENT.with(|c| c.set(Some((std::sync::Arc::as_ptr(&job.sched), job.tid))));
                        let (trace, steps) = run_thread(job.tid, &job.prog, Some(&job.sched));
                        CURRENT.with(|c| c.set(None));
                        job.sched.finish(job.tid);
                        if back.send((job.tid, trace, steps)).is_err() {
                            break;
                        }
                    }
                })
                .expect("spawn simulated caller thread");
            self.txs.push(tx);
        }
    }
}

thread_local! {
    /// scheduler and thread id of the simulated caller thread running on this OS thread
    static CURRENT: std::cell::Cell<Option<(*const Sched, usize)>> = std::cell::Cell::new(None);
}

/// Called from the process-wide panic hook: the instant a panic starts (before any frame is torn
/// down, e.g. while a drop bomb is still inside `Accumulator::drop`) is a scheduler point too, so
/// "another thread runs while this one is in the middle of panicking" is an interleaving the
/// simulator produces deterministically instead of leaving it to real races.
pub fn panic_hook_point() {
    if let Some((sched, tid)) = CURRENT.with(|c| c.get()) {
        // the Arc<Sched> is kept alive by the job for the whole run of this thread
        unsafe { (*sched).hook_point(tid) };
    }
}

thread_local! {
    static SIM_THREADS: std::cell::RefCell<SimThreads> = std::cell::RefCell::new(SimThreads::new());
}

/// Execute a scenario for real.
pub fn execute(sc: &Scenario) -> Observed {
    if sc.threads.len() == 1 {
        let (trace, steps) = run_thread(0, &sc.threads[0], None);
        return Observed { traces: vec![trace], schedule_taken: Vec::new(), overlap_events: 0, hook_parks: 0, steps };
    }
    let n = sc.threads.len();
    let sched = std::sync::Arc::new(Sched::new(n, sc.schedule.clone()));
    let mut traces: Vec<Vec<Ev>> = vec![Vec::new(); n];
    let mut steps = 0;
    SIM_THREADS.with(|p| {
        let mut p = p.borrow_mut();
        p.ensure(n);
        for (tid, prog) in sc.threads.iter().enumerate() {
            p.txs[tid].send(Job { tid, prog: prog.clone(), sched: sched.clone() }).expect("simulated thread alive");
        }
        sched.kickoff();
        for _ in 0..n {
            let (tid, t, s) = p.rx.recv().expect("simulated thread must not die: its root block is a catch_unwind");
            traces[tid] = t;
            steps += s;
        }
    });
    let (taken, overlap, hook_parks) = sched.report();
    Observed { traces, schedule_taken: taken, overlap_events: overlap, hook_parks, steps }
}
