//! Scenario generator: seeded, swarm-style (sizes, statement mix, enabled fault kinds and thread
//! count vary per run). It tracks an abstract state so that generated programs are valid Rust-like
//! programs (no use after move) and so that it knows where control flow leaves a block.

use simcore::Rng;

use crate::scenario::{ErrSpec, Outcome, Scenario, Slot, Stmt};

#[derive(Clone, Copy, PartialEq)]
enum St {
    /// armed, with this many entries
    Armed(usize),
    Gone,
    Guard,
    SessionFinished,
    SessionUnfinished,
}

struct Cfg {
    max_stmts: usize,
    p_panic: u32,
    p_yield: u32,
    p_guard: u32,
    p_session: u32,
    p_leave_unfinished: u32,
    bundles: bool,
    located: bool,
    extend_panics: bool,
    multi: bool,
    /// chance that a leaf error repeats an earlier one verbatim (same message, same location):
    /// recorded errors are a sequence, not a set
    p_repeat: u32,
    /// some programs record very many errors at once (one `extend` of 90-300)
    bulk: bool,
}

struct Ctx<'r> {
    rng: &'r mut Rng,
    cfg: Cfg,
    frames: Vec<Vec<St>>,
    next_id: u32,
    left: usize,
    /// leaf errors generated so far, for `p_repeat`
    recent: Vec<ErrSpec>,
    /// frame index of the innermost enclosing catch_unwind boundary's block
    catch_frames: Vec<usize>,
}

impl Ctx<'_> {
    fn id(&mut self) -> u32 {
        self.next_id += 1;
        self.next_id
    }

    fn err(&mut self, depth: usize) -> ErrSpec {
        let r = self.rng.below(100);
        if self.cfg.bundles && depth < 2 && r < 22 {
            let k = self.rng.range(2, 4);
            let children = (0..k).map(|_| self.err(depth + 1)).collect();
            let at = if self.cfg.located && self.rng.pct(40) { Some(self.seg()) } else { None };
            ErrSpec::Bundle(children, at)
        } else if self.cfg.p_repeat > 0 && !self.recent.is_empty() && self.rng.pct(self.cfg.p_repeat) {
            // mostly the one just before (adjacent equal entries), sometimes an older one
            let i = if self.rng.pct(60) { self.recent.len() - 1 } else { self.rng.below(self.recent.len()) };
            self.recent[i].clone()
        } else {
            let e = if self.cfg.located && r < 50 {
                let id = self.id();
                let seg = self.seg();
                ErrSpec::Located(id, seg)
            } else {
                ErrSpec::Single(self.id())
            };
            self.recent.push(e.clone());
            e
        }
    }

    /// either public constructor
    fn new_stmt(&mut self) -> Stmt {
        if self.rng.pct(30) {
            Stmt::NewDefault
        } else {
            Stmt::New
        }
    }

    fn seg(&mut self) -> String {
        ["a", "b", "inner", "x[0]", "v"][self.rng.below(5)].to_string()
    }

    fn live_slots(&self) -> Vec<Slot> {
        let mut v = Vec::new();
        for (f, fr) in self.frames.iter().enumerate() {
            for (i, s) in fr.iter().enumerate() {
                if matches!(s, St::Armed(_)) {
                    v.push(Slot { frame: f, idx: i });
                }
            }
        }
        v
    }

    fn entries(&mut self, s: Slot) -> &mut usize {
        match &mut self.frames[s.frame][s.idx] {
            St::Armed(n) => n,
            _ => unreachable!(),
        }
    }

    /// Generates a block. Returns the statements and whether control leaves the block by unwinding.
    fn block(&mut self, depth: usize, catch: bool) -> (Vec<Stmt>, bool) {
        self.frames.push(Vec::new());
        if catch {
            self.catch_frames.push(self.frames.len() - 1);
        }
        let mut out = Vec::new();
        let mut unwinding = false;
        let n = self.rng.range(1, 9);
        for _ in 0..n {
            if self.left == 0 {
                break;
            }
            self.left -= 1;
            let (stmt, leaves) = self.stmt(depth);
            out.push(stmt);
            if leaves {
                unwinding = true;
                break;
            }
        }
        let me = self.frames.len() - 1;
        if !unwinding {
            // end of block: usually finish what is still armed in this frame, sometimes leave it
            let mine: Vec<usize> =
                self.frames[me].iter().enumerate().filter(|(_, s)| matches!(s, St::Armed(_))).map(|(i, _)| i).collect();
            for idx in mine {
                if self.rng.pct(self.cfg.p_leave_unfinished) {
                    continue;
                }
                let slot = Slot { frame: me, idx };
                let s = match self.rng.below(4) {
                    0 => Stmt::Finish(slot),
                    1 => Stmt::FinishWith(slot, self.id()),
                    2 => Stmt::IntoInner(slot),
                    _ => Stmt::Finish(slot),
                };
                self.frames[me][idx] = St::Gone;
                out.push(s);
            }
            // anything still armed explodes at scope exit (the last created goes first); so does an
            // unfinished session inside a guard's destructor
            if self.frames[me].iter().any(|s| matches!(s, St::Armed(_) | St::SessionUnfinished)) {
                unwinding = true;
            }
        }
        self.frames.pop();
        if catch {
            self.catch_frames.pop();
        }
        (out, unwinding)
    }

    fn stmt(&mut self, depth: usize) -> (Stmt, bool) {
        let live = self.live_slots();
        let me = self.frames.len() - 1;
        // structural choices first
        let r = self.rng.below(100) as u32;
        let mut acc = 0u32;
        let mut hit = |p: u32| {
            acc += p;
            r < acc
        };
        if live.is_empty() || hit(12) {
            if self.frames[me].len() < 4 {
                self.frames[me].push(St::Armed(0));
                return (self.new_stmt(), false);
            }
        }
        if hit(self.cfg.p_panic) {
            return (Stmt::Panic(self.id()), true);
        }
        if depth < 3 && hit(9) {
            let (b, unw) = self.block(depth + 1, false);
            return (Stmt::Scope(b), unw);
        }
        if depth < 3 && hit(11) {
            let (b, _) = self.block(depth + 1, true);
            return (Stmt::CatchScope(b), false);
        }
        if self.cfg.multi && hit(self.cfg.p_yield) {
            return (Stmt::Yield, false);
        }
        if hit(self.cfg.p_guard) && self.frames[me].len() < 5 {
            self.frames[me].push(St::Guard);
            return (Stmt::GuardYield, false);
        }
        if hit(self.cfg.p_session) && self.frames[me].len() < 5 {
            let k = self.rng.below(3);
            let errs = (0..k).map(|_| self.err(1)).collect();
            let finish = !self.rng.pct(25);
            self.frames[me].push(if finish { St::SessionFinished } else { St::SessionUnfinished });
            return (Stmt::GuardSession { errs, finish }, false);
        }
        if live.is_empty() {
            self.frames[me].push(St::Armed(0));
            return (self.new_stmt(), false);
        }
        let slot = *self.rng.pick(&live);
        let full = *self.entries(slot) >= 8;
        let choice = self.rng.weighted(&[14, 8, 10, 12, 12, 5, 4, 4, 3, 3]);
        match choice {
            0 if !full => {
                *self.entries(slot) += 1;
                (Stmt::Push(slot, self.err(0)), false)
            }
            1 => (Stmt::HandleOk(slot, self.id()), false),
            2 if !full => {
                *self.entries(slot) += 1;
                (Stmt::HandleErr(slot, self.err(0)), false)
            }
            3 => {
                let o = match self.rng.below(10) {
                    0..=3 => Outcome::Ok(self.id()),
                    4..=7 if !full => {
                        *self.entries(slot) += 1;
                        Outcome::Err(self.err(0))
                    }
                    4..=7 => Outcome::Ok(self.id()),
                    _ => {
                        if self.cfg.p_panic > 0 {
                            Outcome::Panic(self.id())
                        } else {
                            Outcome::Ok(self.id())
                        }
                    }
                };
                let leaves = matches!(o, Outcome::Panic(_));
                (Stmt::HandleIn(slot, o), leaves)
            }
            4 if !full => {
                let k = if self.cfg.bulk && self.rng.pct(20) { self.rng.range(90, 300) } else { self.rng.below(4) };
                let items: Vec<ErrSpec> = (0..k).map(|_| self.err(0)).collect();
                let panic_after = if self.cfg.extend_panics && self.rng.pct(35) { Some((self.rng.below(k + 1), self.id())) } else { None };
                // An interrupted extend leaves in-flight partial state. The property does not say how
                // much of it counts as recorded, so the accumulator is either opened right away
                // (catch_locally) or is one the unwind destroys (it lives inside the nearest catch scope).
                let dies_in_unwind = slot.frame >= *self.catch_frames.last().unwrap_or(&0);
                let catch_locally = !dies_in_unwind || self.rng.pct(50);
                match panic_after {
                    None => {
                        *self.entries(slot) += k;
                        (Stmt::Extend { slot, items, panic_after, catch_locally }, false)
                    }
                    Some(_) if catch_locally => {
                        self.frames[slot.frame][slot.idx] = St::Gone;
                        (Stmt::Extend { slot, items, panic_after, catch_locally }, false)
                    }
                    Some(_) => (Stmt::Extend { slot, items, panic_after, catch_locally }, true),
                }
            }
            5 => {
                if *self.entries(slot) == 0 {
                    // fresh armed accumulator in the same slot
                } else {
                    self.frames[slot.frame][slot.idx] = St::Gone;
                }
                (Stmt::Checkpoint(slot), false)
            }
            6 => {
                self.frames[slot.frame][slot.idx] = St::Gone;
                (Stmt::Finish(slot), false)
            }
            7 => {
                self.frames[slot.frame][slot.idx] = St::Gone;
                (Stmt::FinishWith(slot, self.id()), false)
            }
            8 => {
                self.frames[slot.frame][slot.idx] = St::Gone;
                (Stmt::IntoInner(slot), false)
            }
            9 => {
                self.frames[slot.frame][slot.idx] = St::Gone;
                (Stmt::Drop(slot), true)
            }
            _ => (Stmt::HandleOk(slot, self.id()), false),
        }
    }
}

fn thread_program(rng: &mut Rng, multi: bool, id_base: u32) -> Vec<Stmt> {
    // swarm: every knob drawn per thread program
    let fault_free = rng.pct(12);
    let cfg = Cfg {
        max_stmts: rng.range(3, 24),
        p_panic: if fault_free { 0 } else { *rng.pick(&[0u32, 3, 6, 10]) },
        p_yield: *rng.pick(&[4u32, 10, 18]),
        p_guard: if multi { *rng.pick(&[3u32, 6, 10]) } else { *rng.pick(&[0u32, 2]) },
        p_session: *rng.pick(&[0u32, 3, 6]),
        p_leave_unfinished: if fault_free { 0 } else { *rng.pick(&[0u32, 10, 30]) },
        bundles: rng.pct(60),
        located: rng.pct(60),
        extend_panics: !fault_free && rng.pct(60),
        multi,
        p_repeat: *rng.pick(&[0u32, 0, 0, 40]),
        bulk: rng.pct(8),
    };
    let left = cfg.max_stmts;
    let mut ctx = Ctx { rng, cfg, frames: Vec::new(), next_id: id_base, left, recent: Vec::new(), catch_frames: Vec::new() };
    let (b, _) = ctx.block(0, true);
    b
}

/// The pattern that makes "whose unwind is it?" observable: one thread parks in the middle of an
/// unwind (guard destructor) while another drops an unfinished accumulator and must get the bomb.
fn planted_overlap(rng: &mut Rng, threads: usize) -> Vec<Vec<Stmt>> {
    let mut progs = Vec::new();
    let unwinder = rng.below(threads);
    for t in 0..threads {
        let base = 1000 * (t as u32 + 1);
        if t == unwinder {
            let mut inner = vec![Stmt::GuardYield, Stmt::New];
            let s = Slot { frame: 1, idx: 1 };
            for k in 0..rng.below(3) {
                inner.push(Stmt::Push(s, ErrSpec::Single(base + k as u32)));
            }
            if rng.pct(50) {
                inner.push(Stmt::GuardYield);
            }
            inner.push(Stmt::Panic(base + 99));
            let mut p = Vec::new();
            for _ in 0..rng.below(3) {
                p.push(Stmt::Yield);
            }
            p.push(Stmt::CatchScope(inner));
            // after the catch: bombs must be armed again on this thread
            p.push(Stmt::CatchScope(vec![Stmt::New]));
            progs.push(p);
        } else {
            let mut p = Vec::new();
            let rounds = rng.range(1, 3);
            for r in 0..rounds {
                let mut inner = vec![Stmt::New];
                let s = Slot { frame: 1, idx: 0 };
                let k = rng.below(3);
                for j in 0..k {
                    inner.push(Stmt::Push(s, ErrSpec::Single(base + 10 * r as u32 + j as u32)));
                }
                for _ in 0..rng.below(3) {
                    inner.push(Stmt::Yield);
                }
                if rng.pct(30) {
                    inner.push(Stmt::Finish(s));
                }
                p.push(Stmt::Yield);
                p.push(Stmt::CatchScope(inner));
            }
            progs.push(p);
        }
    }
    progs
}

pub fn generate(run_seed: u64) -> Scenario {
    let mut g = Rng::stream(run_seed, "gen");
    let mut s = Rng::stream(run_seed, "sched");
    let threads = match g.below(100) {
        0..=44 => 1,
        45..=69 => 2,
        70..=87 => 3,
        _ => 4,
    };
    let progs = if threads > 1 && g.pct(15) {
        planted_overlap(&mut g, threads)
    } else {
        (0..threads).map(|t| thread_program(&mut g, threads > 1, 1000 * (t as u32 + 1))).collect()
    };
    let schedule = if threads > 1 { (0..s.range(0, 40)).map(|_| s.below(threads) as u8).collect() } else { Vec::new() };
    Scenario { threads: progs, schedule }
}
