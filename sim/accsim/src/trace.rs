//! Trace events. The real interpreter (`interp.rs`) and the reference model (`model.rs`) both
//! produce `Vec<Ev>` per thread; `compare` applies the oracle rules C05.R1-R10.

use crate::scenario::Slot;
use serde::{Deserialize, Serialize};

#[derive(Clone, Debug, Serialize, Deserialize, PartialEq)]
pub enum Payload {
    /// the simulator's own panic payload
    Sim(u32),
    /// (observed only) a string panic message
    Msg(String),
    /// (model only) the accumulator drop bomb: number of recorded entries, number of leaves
    Bomb { entries: usize, leaves: usize },
    /// (observed only) some other payload type
    Other,
}

#[derive(Clone, Debug, Serialize, Deserialize, PartialEq)]
pub enum FinishRes {
    Ok(Option<u32>),
    Err {
        /// `Error::len()`
        len: usize,
        /// Display of each leaf of `flatten()`, in order
        leaves: Vec<String>,
        /// when two or more entries were recorded: leaves of each top-level child of the bundle
        top: Option<Vec<Vec<String>>>,
    },
}

#[derive(Clone, Debug, Serialize, Deserialize, PartialEq)]
pub enum Ev {
    New(Slot),
    /// statement referred to a slot that holds no accumulator (only after minimisation)
    Skipped,
    Push(Slot),
    Handle { slot: Slot, ret: Option<u32> },
    HandleIn { slot: Slot, calls: u32, ret: Option<u32> },
    ExtendDone(Slot),
    /// extend's iterator panicked and the call was caught locally; `recorded` = what `into_inner`
    /// then returned (observed) / everything that could have been recorded (model);
    /// `min_len` = number of entries recorded before the call.
    ExtendCaught { slot: Slot, payload: Payload, recorded: Vec<Vec<String>>, min_len: usize },
    Checkpoint { slot: Slot, result: FinishRes },
    Finish { slot: Slot, result: FinishRes },
    IntoInner { slot: Slot, entries: Vec<Vec<String>> },
    /// an armed accumulator is about to be dropped. `nested` is `Some(msg)` iff the drop panicked
    /// *while the thread was already unwinding* (observed through an inner catch_unwind; in
    /// production that is a process abort).
    DropSlot { slot: Slot, unwinding: bool, nested: Option<String> },
    GuardYield { unwinding: bool },
    SessionFinish { unwinding: bool, result: FinishRes },
    SessionDrop { unwinding: bool, nested: Option<String> },
    /// a catch_unwind boundary was reached
    Caught(Option<Payload>),
    /// how the thread's root block ended, and whether `thread::panicking()` is false afterwards
    ThreadEnd { payload: Option<Payload>, still_panicking: bool },
}

pub const BOMB_PREFIX: &str = "darling::error::Accumulator dropped without being finished";

fn payload_matches(model: &Payload, obs: &Payload) -> bool {
    match (model, obs) {
        (Payload::Sim(a), Payload::Sim(b)) => a == b,
        (Payload::Bomb { entries, leaves }, Payload::Msg(m)) => {
            // The property fixes that the drop panics and, when errors were recorded, that the
            // message states how many were lost - not the wording. Any string panic at this point is
            // the bomb; the count must appear in it as a number: the entry count, or the leaf count
            // when bundles were recorded (the property says "how many errors", not which count).
            if *entries == 0 {
                return true;
            }
            numbers_in(m).iter().any(|n| n == entries || n == leaves)
        }
        _ => false,
    }
}

fn numbers_in(s: &str) -> Vec<usize> {
    let mut out = Vec::new();
    let mut cur = String::new();
    for c in s.chars().chain(std::iter::once(' ')) {
        if c.is_ascii_digit() {
            cur.push(c);
        } else if !cur.is_empty() {
            if let Ok(n) = cur.parse() {
                out.push(n);
            }
            cur.clear();
        }
    }
    out
}

fn opt_payload_matches(model: &Option<Payload>, obs: &Option<Payload>) -> bool {
    match (model, obs) {
        (None, None) => true,
        (Some(m), Some(o)) => payload_matches(m, o),
        _ => false,
    }
}

#[derive(Clone, Debug, Serialize, Deserialize)]
pub struct Mismatch {
    pub rule: String,
    pub thread: usize,
    pub position: usize,
    pub expected: String,
    pub observed: String,
}

fn rule_for(model: Option<&Ev>, obs: Option<&Ev>, after_catch: bool, multi: bool) -> &'static str {
    let bombish = |p: &Option<Payload>| matches!(p, Some(Payload::Bomb { .. })) || matches!(p, Some(Payload::Msg(m)) if m.starts_with(BOMB_PREFIX));
    let ev = model.or(obs);
    let base = match ev {
        Some(Ev::Finish { result, .. }) | Some(Ev::SessionFinish { result, .. }) => match (result, obs) {
            (FinishRes::Ok(_), Some(Ev::Finish { result: FinishRes::Ok(_), .. })) => "C05.R1",
            (FinishRes::Ok(_), _) => "C05.R1",
            _ => match obs {
                Some(Ev::Finish { result: FinishRes::Ok(_), .. }) | Some(Ev::SessionFinish { result: FinishRes::Ok(_), .. }) => "C05.R1",
                _ => "C05.R2",
            },
        },
        Some(Ev::Handle { .. }) | Some(Ev::HandleIn { .. }) | Some(Ev::Push(_)) => "C05.R3",
        Some(Ev::ExtendDone(_)) | Some(Ev::ExtendCaught { .. }) => "C05.R4",
        Some(Ev::IntoInner { .. }) => "C05.R5",
        Some(Ev::Checkpoint { .. }) => "C05.R6",
        Some(Ev::DropSlot { .. }) | Some(Ev::SessionDrop { .. }) => {
            let nested = matches!(obs, Some(Ev::DropSlot { nested: Some(_), .. }) | Some(Ev::SessionDrop { nested: Some(_), .. }));
            if nested {
                "C05.R8"
            } else {
                "C05.R7"
            }
        }
        Some(Ev::Caught(p)) | Some(Ev::ThreadEnd { payload: p, .. }) => {
            let op = match obs {
                Some(Ev::Caught(p)) | Some(Ev::ThreadEnd { payload: p, .. }) => p.clone(),
                _ => None,
            };
            if bombish(p) || bombish(&op) {
                if after_catch {
                    "C05.R10"
                } else {
                    "C05.R7"
                }
            } else {
                "C05.R8"
            }
        }
        _ => "C05.R0",
    };
    if multi && (base == "C05.R7" || base == "C05.R8") {
        // with several threads the same checks establish schedule independence
        return match base {
            "C05.R7" => "C05.R9/R7",
            _ => "C05.R9/R8",
        };
    }
    base
}

fn finish_matches(model: &FinishRes, obs: &FinishRes) -> bool {
    match (model, obs) {
        (FinishRes::Ok(a), FinishRes::Ok(b)) => a == b,
        // The error value is its leaves (count, order, text with location paths). Whether recorded
        // bundles survive as nested bundles inside the result is not compared (`top` is kept in the
        // trace for the reader); `into_inner` is where the entries themselves are observable (R5).
        (FinishRes::Err { len: ml, leaves: mv, .. }, FinishRes::Err { len: ol, leaves: ov, .. }) => ml == ol && mv == ov,
        _ => false,
    }
}

fn ev_matches(model: &Ev, obs: &Ev) -> bool {
    match (model, obs) {
        (Ev::Finish { slot: a, result: m }, Ev::Finish { slot: b, result: o }) => a == b && finish_matches(m, o),
        (Ev::Checkpoint { slot: a, result: m }, Ev::Checkpoint { slot: b, result: o }) => a == b && finish_matches(m, o),
        (Ev::SessionFinish { unwinding: a, result: m }, Ev::SessionFinish { unwinding: b, result: o }) => a == b && finish_matches(m, o),
        (Ev::Caught(m), Ev::Caught(o)) => opt_payload_matches(m, o),
        (Ev::ThreadEnd { payload: m, still_panicking: ms }, Ev::ThreadEnd { payload: o, still_panicking: os }) => {
            opt_payload_matches(m, o) && ms == os
        }
        (
            Ev::ExtendCaught { slot: ms, payload: mp, recorded: mr, min_len },
            Ev::ExtendCaught { slot: os, payload: op, recorded: or, .. },
        ) => {
            ms == os && payload_matches(mp, op) && or.len() >= *min_len && or.len() <= mr.len() && mr[..or.len()] == or[..]
        }
        _ => model == obs,
    }
}

/// Compare every thread's observed trace with the model's. Returns the first mismatch.
pub fn compare(model: &[Vec<Ev>], obs: &[Vec<Ev>]) -> Option<Mismatch> {
    let multi = model.len() > 1;
    for t in 0..model.len().max(obs.len()) {
        let empty = Vec::new();
        let m = model.get(t).unwrap_or(&empty);
        let o = obs.get(t).unwrap_or(&empty);
        let mut after_catch = false;
        for i in 0..m.len().max(o.len()) {
            let me = m.get(i);
            let oe = o.get(i);
            let ok = match (me, oe) {
                (Some(a), Some(b)) => ev_matches(a, b),
                _ => false,
            };
            if !ok {
                return Some(Mismatch {
                    rule: rule_for(me, oe, after_catch, multi).to_string(),
                    thread: t,
                    position: i,
                    expected: me.map(|e| format!("{:?}", e)).unwrap_or_else(|| "<end of trace>".into()),
                    observed: oe.map(|e| format!("{:?}", e)).unwrap_or_else(|| "<end of trace>".into()),
                });
            }
            if matches!(me, Some(Ev::Caught(Some(_)))) {
                after_catch = true;
            }
        }
    }
    None
}
