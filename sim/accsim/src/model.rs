//! Reference model of the accumulator and of Rust's scope/unwind semantics, interpreting the same
//! program tree sequentially, per thread. Trivial inside: an accumulator is `Some(Vec<ErrSpec>)`
//! while armed and `None` once defused.

use crate::scenario::{ErrSpec, Outcome, Scenario, Slot, Stmt};
use crate::trace::{Ev, FinishRes, Payload};

enum MEntry {
    Acc(Option<Vec<ErrSpec>>),
    YieldGuard,
    Session { errs: Vec<ErrSpec>, finish: bool },
}

struct Model {
    frames: Vec<Vec<MEntry>>,
    trace: Vec<Ev>,
    /// coverage: (statement kind x abstract accumulator state x depth) pairs visited
    cover: Vec<String>,
    /// set when an interrupted extend left an accumulator alive with unspecified content: the
    /// property does not define that state, so such a scenario (only ever produced by minimisation
    /// candidates) is not judged
    invalid: bool,
    catch_frames: Vec<usize>,
}

fn kind_and_slot(s: &Stmt) -> (&'static str, Option<Slot>) {
    match s {
        Stmt::New | Stmt::NewDefault => ("new", None),
        Stmt::Push(sl, _) => ("push", Some(*sl)),
        Stmt::HandleOk(sl, _) => ("handle_ok", Some(*sl)),
        Stmt::HandleErr(sl, _) => ("handle_err", Some(*sl)),
        Stmt::HandleIn(sl, Outcome::Ok(_)) => ("handle_in_ok", Some(*sl)),
        Stmt::HandleIn(sl, Outcome::Err(_)) => ("handle_in_err", Some(*sl)),
        Stmt::HandleIn(sl, Outcome::Panic(_)) => ("handle_in_panic", Some(*sl)),
        Stmt::Extend { slot, panic_after: None, .. } => ("extend", Some(*slot)),
        Stmt::Extend { slot, catch_locally: true, .. } => ("extend_panic_caught", Some(*slot)),
        Stmt::Extend { slot, .. } => ("extend_panic", Some(*slot)),
        Stmt::Checkpoint(sl) => ("checkpoint", Some(*sl)),
        Stmt::Finish(sl) => ("finish", Some(*sl)),
        Stmt::FinishWith(sl, _) => ("finish_with", Some(*sl)),
        Stmt::IntoInner(sl) => ("into_inner", Some(*sl)),
        Stmt::Drop(sl) => ("drop", Some(*sl)),
        Stmt::Panic(_) => ("panic", None),
        Stmt::Scope(_) => ("scope", None),
        Stmt::CatchScope(_) => ("catch_scope", None),
        Stmt::Yield => ("yield", None),
        Stmt::GuardYield => ("guard_yield", None),
        Stmt::GuardSession { finish: true, .. } => ("guard_session_finished", None),
        Stmt::GuardSession { .. } => ("guard_session_unfinished", None),
    }
}

fn entry_leaves(e: &[ErrSpec]) -> Vec<Vec<String>> {
    e.iter().map(|x| x.leaves()).collect()
}

pub fn finish_res(errs: &[ErrSpec], value: Option<u32>) -> FinishRes {
    if errs.is_empty() {
        FinishRes::Ok(value)
    } else {
        let per = entry_leaves(errs);
        let leaves: Vec<String> = per.iter().flatten().cloned().collect();
        FinishRes::Err { len: leaves.len(), leaves, top: if errs.len() >= 2 { Some(per) } else { None } }
    }
}

fn bomb(errs: &[ErrSpec]) -> Payload {
    Payload::Bomb { entries: errs.len(), leaves: errs.iter().map(|e| e.leaves().len()).sum() }
}

impl Model {
    fn acc(&mut self, s: Slot) -> Option<&mut Option<Vec<ErrSpec>>> {
        match self.frames.get_mut(s.frame).and_then(|f| f.get_mut(s.idx)) {
            Some(MEntry::Acc(a)) if a.is_some() => Some(a),
            _ => None,
        }
    }

    /// Returns `Some(payload)` when the block is left by unwinding.
    fn run_block(&mut self, stmts: &[Stmt]) -> Option<Payload> {
        self.frames.push(Vec::new());
        let depth = self.frames.len() - 1;
        let mut unwinding: Option<Payload> = None;
        for s in stmts {
            if let Some(p) = self.exec(s) {
                unwinding = Some(p);
                break;
            }
        }
        // scope exit: locals dropped in reverse order of creation
        while let Some(entry) = self.frames[depth].pop() {
            let idx = self.frames[depth].len();
            match entry {
                MEntry::Acc(None) => {}
                MEntry::Acc(Some(errs)) => {
                    self.cover.push(format!(
                        "scope-exit-drop|{}|unwinding={}|depth{}",
                        if errs.is_empty() { "armed-empty" } else { "armed-nonempty" },
                        unwinding.is_some(),
                        depth.min(4)
                    ));
                    self.trace.push(Ev::DropSlot { slot: Slot { frame: depth, idx }, unwinding: unwinding.is_some(), nested: None });
                    if unwinding.is_none() {
                        unwinding = Some(bomb(&errs));
                    }
                }
                MEntry::YieldGuard => self.trace.push(Ev::GuardYield { unwinding: unwinding.is_some() }),
                MEntry::Session { errs, finish } => {
                    if finish {
                        self.trace.push(Ev::SessionFinish { unwinding: unwinding.is_some(), result: finish_res(&errs, None) });
                    } else {
                        self.trace.push(Ev::SessionDrop { unwinding: unwinding.is_some(), nested: None });
                        if unwinding.is_none() {
                            unwinding = Some(bomb(&errs));
                        }
                    }
                }
            }
        }
        self.frames.pop();
        unwinding
    }

    fn exec(&mut self, s: &Stmt) -> Option<Payload> {
        {
            let (kind, slot) = kind_and_slot(s);
            let st = match slot {
                None => "-",
                Some(sl) => match self.frames.get(sl.frame).and_then(|f| f.get(sl.idx)) {
                    Some(MEntry::Acc(Some(v))) if v.is_empty() => "armed-empty",
                    Some(MEntry::Acc(Some(_))) => "armed-nonempty",
                    _ => "gone",
                },
            };
            let live_here = self.frames.iter().flatten().filter(|e| matches!(e, MEntry::Acc(Some(_)))).count().min(3);
            self.cover.push(format!("{}|{}|depth{}|live{}", kind, st, self.frames.len().min(4), live_here));
        }
        match s {
            Stmt::New | Stmt::NewDefault => {
                let depth = self.frames.len() - 1;
                self.frames[depth].push(MEntry::Acc(Some(Vec::new())));
                let idx = self.frames[depth].len() - 1;
                self.trace.push(Ev::New(Slot { frame: depth, idx }));
            }
            Stmt::Push(slot, e) => match self.acc(*slot) {
                Some(a) => {
                    a.as_mut().unwrap().push(e.clone());
                    self.trace.push(Ev::Push(*slot));
                }
                None => self.trace.push(Ev::Skipped),
            },
            Stmt::HandleOk(slot, v) => match self.acc(*slot) {
                Some(_) => self.trace.push(Ev::Handle { slot: *slot, ret: Some(*v) }),
                None => self.trace.push(Ev::Skipped),
            },
            Stmt::HandleErr(slot, e) => match self.acc(*slot) {
                Some(a) => {
                    a.as_mut().unwrap().push(e.clone());
                    self.trace.push(Ev::Handle { slot: *slot, ret: None });
                }
                None => self.trace.push(Ev::Skipped),
            },
            Stmt::HandleIn(slot, outcome) => match self.acc(*slot) {
                Some(a) => match outcome {
                    Outcome::Ok(v) => self.trace.push(Ev::HandleIn { slot: *slot, calls: 1, ret: Some(*v) }),
                    Outcome::Err(e) => {
                        a.as_mut().unwrap().push(e.clone());
                        self.trace.push(Ev::HandleIn { slot: *slot, calls: 1, ret: None });
                    }
                    Outcome::Panic(id) => return Some(Payload::Sim(*id)),
                },
                None => self.trace.push(Ev::Skipped),
            },
            Stmt::Extend { slot, items, panic_after, catch_locally } => match self.acc(*slot) {
                Some(a) => {
                    let effective_panic = panic_after.filter(|(j, _)| *j <= items.len());
                    match effective_panic {
                        None => {
                            a.as_mut().unwrap().extend(items.iter().cloned());
                            self.trace.push(Ev::ExtendDone(*slot));
                        }
                        Some((j, id)) => {
                            if *catch_locally {
                                let before = a.take().unwrap();
                                let min_len = before.len();
                                let mut all = before;
                                all.extend(items.iter().take(j).cloned());
                                self.trace.push(Ev::ExtendCaught {
                                    slot: *slot,
                                    payload: Payload::Sim(id),
                                    recorded: entry_leaves(&all),
                                    min_len,
                                });
                            } else {
                                // in-flight partial state; the accumulator stays where it is and is
                                // dropped by the unwind (the generator only does this to accumulators
                                // that the unwind destroys; after minimisation it may survive, and
                                // then what it holds is whatever a prefix of the yielded items is -
                                // see `uncertain`)
                                a.as_mut().unwrap().extend(items.iter().take(j).cloned());
                                if slot.frame < *self.catch_frames.last().unwrap_or(&0) {
                                    self.invalid = true;
                                }
                                return Some(Payload::Sim(id));
                            }
                        }
                    }
                }
                None => self.trace.push(Ev::Skipped),
            },
            Stmt::Checkpoint(slot) => match self.acc(*slot) {
                Some(a) => {
                    let errs = a.take().unwrap();
                    let res = finish_res(&errs, None);
                    if errs.is_empty() {
                        *a = Some(Vec::new()); // fresh, armed
                    }
                    self.trace.push(Ev::Checkpoint { slot: *slot, result: res });
                }
                None => self.trace.push(Ev::Skipped),
            },
            Stmt::Finish(slot) => match self.acc(*slot) {
                Some(a) => {
                    let errs = a.take().unwrap();
                    self.trace.push(Ev::Finish { slot: *slot, result: finish_res(&errs, None) });
                }
                None => self.trace.push(Ev::Skipped),
            },
            Stmt::FinishWith(slot, v) => match self.acc(*slot) {
                Some(a) => {
                    let errs = a.take().unwrap();
                    self.trace.push(Ev::Finish { slot: *slot, result: finish_res(&errs, Some(*v)) });
                }
                None => self.trace.push(Ev::Skipped),
            },
            Stmt::IntoInner(slot) => match self.acc(*slot) {
                Some(a) => {
                    let errs = a.take().unwrap();
                    self.trace.push(Ev::IntoInner { slot: *slot, entries: entry_leaves(&errs) });
                }
                None => self.trace.push(Ev::Skipped),
            },
            Stmt::Drop(slot) => match self.acc(*slot) {
                Some(a) => {
                    let errs = a.take().unwrap();
                    self.trace.push(Ev::DropSlot { slot: *slot, unwinding: false, nested: None });
                    return Some(bomb(&errs));
                }
                None => self.trace.push(Ev::Skipped),
            },
            Stmt::Panic(id) => return Some(Payload::Sim(*id)),
            Stmt::Scope(b) => return self.run_block(b),
            Stmt::CatchScope(b) => {
                self.catch_frames.push(self.frames.len());
                let p = self.run_block(b);
                self.catch_frames.pop();
                self.trace.push(Ev::Caught(p));
            }
            Stmt::Yield => {}
            Stmt::GuardYield => {
                let depth = self.frames.len() - 1;
                self.frames[depth].push(MEntry::YieldGuard);
            }
            Stmt::GuardSession { errs, finish } => {
                let depth = self.frames.len() - 1;
                self.frames[depth].push(MEntry::Session { errs: errs.clone(), finish: *finish });
            }
        }
        None
    }
}

/// Expected trace of every thread. Threads cannot share accumulators (`!Send`), so each thread's
/// expectation is its own sequential execution, whatever the schedule (C05.R9).
pub fn expected(sc: &Scenario) -> Vec<Vec<Ev>> {
    expected_with_cover(sc).0
}

/// Returns (expected traces, coverage keys, scenario is judged).
pub fn expected_with_cover(sc: &Scenario) -> (Vec<Vec<Ev>>, Vec<String>, bool) {
    let mut cover = Vec::new();
    let mut valid = true;
    let traces = sc
        .threads
        .iter()
        .map(|prog| {
            let mut m = Model { frames: Vec::new(), trace: Vec::new(), cover: Vec::new(), invalid: false, catch_frames: Vec::new() };
            let p = m.run_block(prog);
            m.trace.push(Ev::ThreadEnd { payload: p, still_panicking: false });
            cover.append(&mut m.cover);
            valid &= !m.invalid;
            m.trace
        })
        .collect();
    (traces, cover, valid)
}
