//! The scenario: a plain data structure that fully determines one run of simulator A. The PRNG is
//! only ever used to *produce* one of these (`gen.rs`); interpretation, replay and minimisation work
//! on the scenario itself.

use serde::{Deserialize, Serialize};

/// An error value to record. Leaf ids are unique within a scenario.
#[derive(Clone, Debug, Serialize, Deserialize, PartialEq)]
pub enum ErrSpec {
    /// the leaf of kind `interp::leaf(id)` (mostly `Error::custom("F<id>")`)
    Single(u32),
    /// `Error::custom("F<id>").at(seg)`
    Located(u32, String),
    /// `Error::multiple(children)` (children.len() >= 2), optionally `.at(seg)`
    Bundle(Vec<ErrSpec>, Option<String>),
}

impl ErrSpec {
    /// Display strings of the flattened leaves, left to right, with `prefix` prepended to paths.
    pub fn leaves_into(&self, prefix: &[String], out: &mut Vec<String>) {
        match self {
            ErrSpec::Single(id) => out.push(render(*id, prefix, None)),
            ErrSpec::Located(id, seg) => out.push(render(*id, prefix, Some(seg))),
            ErrSpec::Bundle(children, at) => {
                let mut p = prefix.to_vec();
                if let Some(seg) = at {
                    p.push(seg.clone());
                }
                for c in children {
                    c.leaves_into(&p, out);
                }
            }
        }
    }
    pub fn leaves(&self) -> Vec<String> {
        let mut v = Vec::new();
        self.leaves_into(&[], &mut v);
        v
    }
    pub fn is_bundle(&self) -> bool {
        matches!(self, ErrSpec::Bundle(..))
    }
    pub fn max_id(&self) -> u32 {
        match self {
            ErrSpec::Single(i) | ErrSpec::Located(i, _) => *i,
            ErrSpec::Bundle(c, _) => c.iter().map(|e| e.max_id()).max().unwrap_or(0),
        }
    }
}

fn render(id: u32, prefix: &[String], seg: Option<&String>) -> String {
    let mut path: Vec<&str> = prefix.iter().map(|s| s.as_str()).collect();
    if let Some(s) = seg {
        path.push(s);
    }
    let msg = crate::interp::leaf_text(id);
    let text = if path.is_empty() { msg } else { format!("{} at {}", msg, path.join("/")) };
    match crate::interp::span_slot(id) {
        Some(slot) => format!("{} @{}", text, crate::interp::slot_column(slot)),
        None => text,
    }
}

/// Accumulator slot: `frame` is the absolute scope depth on the thread (0 = the thread's root
/// block), `idx` the creation index inside that scope.
#[derive(Clone, Copy, Debug, Serialize, Deserialize, PartialEq, Eq, PartialOrd, Ord)]
pub struct Slot {
    pub frame: usize,
    pub idx: usize,
}

#[derive(Clone, Debug, Serialize, Deserialize, PartialEq)]
pub enum Outcome {
    Ok(u32),
    Err(ErrSpec),
    Panic(u32),
}

#[derive(Clone, Debug, Serialize, Deserialize, PartialEq)]
pub enum Stmt {
    /// `let mut accN = Error::accumulator();` appended to the current scope's slots.
    New,
    /// the same through the other public constructor: `Accumulator::default()`
    NewDefault,
    Push(Slot, ErrSpec),
    HandleOk(Slot, u32),
    HandleErr(Slot, ErrSpec),
    /// `acc.handle_in(|| outcome)`; a `Panic` outcome unwinds out of the closure.
    HandleIn(Slot, Outcome),
    /// `acc.extend(iter)`; the iterator panics after yielding `panic_after` items if given.
    /// `catch_locally`: the call is wrapped in its own `catch_unwind` (accumulator outside it) and the
    /// accumulator is then opened with `into_inner` to read what was recorded.
    Extend { slot: Slot, items: Vec<ErrSpec>, panic_after: Option<(usize, u32)>, catch_locally: bool },
    Checkpoint(Slot),
    Finish(Slot),
    FinishWith(Slot, u32),
    IntoInner(Slot),
    /// explicit `drop(acc)`
    Drop(Slot),
    /// caller-level `panic_any(SimPanic(id))`
    Panic(u32),
    Scope(Vec<Stmt>),
    CatchScope(Vec<Stmt>),
    /// scheduler point now
    Yield,
    /// a guard local whose destructor is a scheduler point (also when it runs during an unwind)
    GuardYield,
    /// a guard local whose destructor runs a complete accumulator session of its own:
    /// new; push each of `errs`; then finish (if `finish`) or leave it unfinished.
    GuardSession { errs: Vec<ErrSpec>, finish: bool },
}

#[derive(Clone, Debug, Serialize, Deserialize, PartialEq)]
pub struct Scenario {
    /// one program per caller thread
    pub threads: Vec<Vec<Stmt>>,
    /// scheduler choices: at the k-th scheduling decision the baton goes to
    /// `live[schedule[k] % live.len()]`; when the list is exhausted, to `live[0]`.
    pub schedule: Vec<u8>,
}

impl Scenario {
    pub fn stmt_count(&self) -> usize {
        fn count(b: &[Stmt]) -> usize {
            b.iter()
                .map(|s| match s {
                    Stmt::Scope(b) | Stmt::CatchScope(b) => 1 + count(b),
                    _ => 1,
                })
                .sum()
        }
        self.threads.iter().map(|t| count(t)).sum()
    }
}
