#!/usr/bin/env python3
"""Generates a second, machine-made part of the corpus: receivers drawn from the derive option
space (field options x container options x outer-impl options, valid combinations only), together
with the matching schema, so that `src/gen_corpus.rs` and `src/gen_schema.rs` cannot drift.

Deterministic (fixed PRNG seed below); the output is committed, the script is re-run only when the
corpus should change:  python3 gen_corpus.py && cargo build

Everything a generated receiver is built from already exists in the hand-written part: probe types
PM<N> / FP<N> / GP<N> / AttrProbe / DataProbe, callables pw / pwo / pmap / pthen / pdef / pdefv / aw /
dw / cthen / cmap / cword / cnone, nested receivers S1 / S5 / S9 / E1 / FR1 / VR1 / TR1.
"""
import random

R = random.Random(20260927)
N_META_STRUCT = 70
N_META_ENUM = 18
N_ELEM = 60

GEN_STRUCTS = []  # (name, has a seam Default impl) of generated FromMeta structs so far
GEN_ENUMS = []    # names of generated FromMeta enums so far
out_rs = []      # corpus
out_schema = []  # schema
meta_names = []
elem_names = []


def pascal(field):
    res, cap = "", True
    for ch in field:
        if ch == "_":
            cap = True
        elif cap:
            res += ch.upper()
            cap = False
        else:
            res += ch
    return res


def rename_field(rule, name):
    if rule in (None, "lowercase", "snake_case"):
        return name
    if rule == "PascalCase":
        return pascal(name)
    if rule == "camelCase":
        p = pascal(name)
        return p[:1].lower() + p[1:]
    if rule == "SCREAMING_SNAKE_CASE":
        return name.upper()
    raise ValueError(rule)


def snake_variant(v):
    s = ""
    for i, ch in enumerate(v):
        if i > 0 and ch.isupper():
            s += "_"
        s += ch.lower()
    return s


def rename_variant(rule, v):
    # darling's default for enum receivers is snake_case
    if rule is None or rule == "snake_case":
        return snake_variant(v)
    if rule == "PascalCase":
        return v
    if rule == "lowercase":
        return v.lower()
    if rule == "camelCase":
        return v[:1].lower() + v[1:]
    if rule == "SCREAMING_SNAKE_CASE":
        return snake_variant(v).upper()
    raise ValueError(rule)


FIELD_RULES = [None, None, None, "lowercase", "snake_case", "PascalCase", "camelCase", "SCREAMING_SNAKE_CASE"]
FIELD_NAMES = ["fa", "fb_x", "fc", "fd_y_z", "fe", "ff_q"]


class Field:
    pass


def gen_fields(site_base, allow_flatten=True, need_default=False, from_ident=False, max_fields=6):
    """Random fields with valid option combinations. Returns list of Field."""
    n = R.randint(1, max_fields)
    fields = []
    have_flatten = False
    for k in range(n):
        f = Field()
        f.rust = FIELD_NAMES[k]
        f.site = site_base + k + 1
        f.opts = []       # darling option strings
        f.schema = []     # builder calls on schema::f(..)
        f.rename = None
        kind = R.choice(["pm", "pm", "pm", "opt", "box", "multi", "multi", "u8", "bool", "flag", "recv", "recv", "optrecv", "map", "mapr", "flatten"])
        if from_ident and kind in ("u8", "bool", "flag", "recv", "optrecv", "map", "mapr"):
            kind = "pm"
        if kind == "flatten" and (have_flatten or not allow_flatten or need_default or from_ident):
            kind = "pm"
        f.kind = kind
        s = f.site
        if kind == "pm":
            f.ty, f.sty, f.defaultable = "PM<%d>" % s, "pm(%d)" % s, True
            if R.random() < 0.35:
                f.opts.append("with = pw::<%d>" % s)
                f.schema.append("with()")
            r = R.random()
            if r < 0.2:
                f.opts.append("map = pmap::<%d>" % s)
                f.schema.append("map()")
            elif r < 0.4:
                f.opts.append("and_then = pthen::<%d>" % s)
                f.schema.append("and_then()")
            r = R.random()
            if r < 0.2:
                f.opts.append("default")
                f.schema.append("dflt()")
            elif r < 0.4:
                f.opts.append("default = pdef::<%d>" % s)
                f.schema.append("dfn(%d)" % s)
            elif r < 0.5 and "with" not in " ".join(f.opts) and not [o for o in f.opts if o.startswith(("map", "and_then"))]:
                f.opts = ["skip"] + (["default = pdef::<%d>" % s] if R.random() < 0.5 else [])
                # a skipped field without a default of its own inherits the container's fallback when
                # there is one, else uses Default::default(): the model decides, the schema only says skip
                f.schema = ["skip()"] + (["dfn(%d)" % s] if len(f.opts) > 1 else [])
        elif kind == "opt":
            f.ty, f.sty, f.defaultable = "Option<PM<%d>>" % s, "opt(pm(%d))" % s, True
            if R.random() < 0.3:
                f.opts.append("with = pwo::<%d>" % s)
                f.schema.append("with()")
            if R.random() < 0.2:
                f.opts.append("default")
                f.schema.append("dflt()")
        elif kind == "box":
            f.ty, f.sty, f.defaultable = "Box<PM<%d>>" % s, "bx(pm(%d))" % s, True
            if R.random() < 0.3:
                f.opts.append("default")
                f.schema.append("dflt()")
        elif kind == "multi":
            f.ty, f.sty, f.defaultable = "Vec<PM<%d>>" % s, "pm(%d)" % s, True
            f.opts.append("multiple")
            f.schema.append("multiple()")
            if R.random() < 0.3:
                f.opts.append("with = pw::<%d>" % s)
                f.schema.append("with()")
            r = R.random()
            if r < 0.2:
                f.opts.append("map = pmap::<%d>" % s)
                f.schema.append("map()")
            elif r < 0.4:
                f.opts.append("and_then = pthen::<%d>" % s)
                f.schema.append("and_then()")
            r = R.random()
            if r < 0.2:
                f.opts.append("default")
                f.schema.append("dflt()")
            elif r < 0.4:
                f.opts.append("default = pdefv::<%d>" % s)
                f.schema.append("dfn(%d)" % s)
        elif kind == "u8":
            f.ty, f.sty, f.defaultable = "u8", "Ty::U8", True
            if R.random() < 0.4:
                f.opts.append("default")
                f.schema.append("dflt()")
        elif kind == "bool":
            f.ty, f.sty, f.defaultable = "bool", "Ty::Bool", True
            if R.random() < 0.4:
                f.opts.append("default")
                f.schema.append("dflt()")
        elif kind == "flag":
            f.ty, f.sty, f.defaultable = "darling::util::Flag", "Ty::Flag", True
        elif kind == "mapr":
            # a map whose values are derived receivers
            pool = ["S1", "S9", "E1"] + [n for n, _ in GEN_STRUCTS[-6:]] + GEN_ENUMS[-3:]
            name = R.choice(pool)
            if R.random() < 0.5:
                f.ty, f.sty = "HashMap<String, %s, B>" % name, 'hmap(KeyKind::Str, r("%s"))' % name
            else:
                f.ty, f.sty = "BTreeMap<String, %s>" % name, 'bmap(KeyKind::Str, r("%s"))' % name
            f.defaultable = True
            if R.random() < 0.7:
                f.opts.append("default")
                f.schema.append("dflt()")
        elif kind == "recv":
            pool = [("S1", False), ("S5", True), ("S9", False), ("E1", False), ("S2", False)] + GEN_STRUCTS[-8:] + [(n, False) for n in GEN_ENUMS[-3:]]
            name, dflt = R.choice(pool)
            f.ty, f.sty, f.defaultable = name, 'r("%s")' % name, dflt
            if dflt and R.random() < 0.4:
                f.opts.append("default")
                f.schema.append("dflt()")
        elif kind == "optrecv":
            name = R.choice(["S1", "S9", "E1", "S3"] + [n for n, _ in GEN_STRUCTS[-6:]] + GEN_ENUMS[-3:])
            f.ty, f.sty, f.defaultable = "Option<%s>" % name, 'opt(r("%s"))' % name, True
        elif kind == "map":
            if R.random() < 0.5:
                f.ty, f.sty = "HashMap<String, PM<%d>, B>" % s, "hmap(KeyKind::Str, pm(%d))" % s
            else:
                f.ty, f.sty = "BTreeMap<syn::Ident, PM<%d>>" % s, "bmap(KeyKind::Ident, pm(%d))" % s
            f.defaultable = True
            if R.random() < 0.6:
                f.opts.append("default")
                f.schema.append("dflt()")
        elif kind == "flatten":
            have_flatten = True
            t = R.choice(["S1", "S9", "map", "res"])
            if t == "map":
                f.ty, f.sty = "HashMap<String, PM<%d>, B>" % s, "hmap(KeyKind::Str, pm(%d))" % s
            elif t == "res":
                f.ty, f.sty = "darling::Result<S1>", 'Ty::DResult(Box::new(r("S1")))'
            else:
                f.ty, f.sty = t, 'r("%s")' % t
            f.defaultable = False
            f.opts.append("flatten")
            f.schema.append("flatten()")
        if need_default and not f.defaultable:
            # fall back to a defaultable type
            f.kind, f.ty, f.sty, f.defaultable, f.opts, f.schema = "pm", "PM<%d>" % s, "pm(%d)" % s, True, [], []
        if kind not in ("flatten",) and "skip" not in f.opts and R.random() < 0.25:
            f.rename = "r%d" % k
            f.opts.append('rename = "%s"' % f.rename)
        fields.append(f)
    return fields


def field_decl(f):
    attr = "    #[darling(%s)]\n" % ", ".join(f.opts) if f.opts else ""
    return "%s    %s: %s,\n" % (attr, f.rust, f.ty)


def field_schema(f, rule):
    name = f.rename if f.rename else rename_field(rule, f.rust)
    s = 'f("%s", %s)' % (f.rust, f.sty)
    if name != f.rust:
        s += '.named("%s")' % name
    for b in f.schema:
        s += "." + b
    return s


def default_expr(f):
    return "Default::default()"


def meta_struct(i):
    name = "G%d" % i
    base = 10000 + i * 100
    cdefault = R.random() < 0.25
    fields = gen_fields(base, need_default=cdefault)
    rule = R.choice(FIELD_RULES)
    allow_unknown = R.random() < 0.25
    post = R.choice([None, None, None, "and_then", "map"])
    word = cdefault is False and all(f.defaultable for f in fields) and not any(f.kind == "flatten" for f in fields) and R.random() < 0.3
    copts = []
    if rule:
        copts.append('rename_all = "%s"' % rule)
    if allow_unknown:
        copts.append("allow_unknown_fields")
    if cdefault:
        copts.append("default")
    pre = ""
    if post == "and_then":
        pre += "fn %s_then(v: %s) -> darling::Result<%s> {\n    cthen::<%d, %s>(v)\n}\n" % (name.lower(), name, name, base + 90, name)
        copts.append("and_then = %s_then" % name.lower())
    if post == "map":
        pre += "fn %s_map(v: %s) -> %s {\n    cmap::<%d, %s>(v)\n}\n" % (name.lower(), name, name, base + 90, name)
        copts.append("map = %s_map" % name.lower())
    if word:
        pre += "fn %s_word() -> darling::Result<%s> {\n    cword::<%d, %s>()\n}\nfn %s_none() -> Option<%s> {\n    cnone::<%d, %s>()\n}\n" % (
            name.lower(), name, base + 91, name, name.lower(), name, base + 91, name)
        copts.append("from_word = %s_word" % name.lower())
        copts.append("from_none = %s_none" % name.lower())
    rs = pre + "#[derive(FromMeta)]\n"
    if copts:
        rs += "#[darling(%s)]\n" % ", ".join(copts)
    rs += "pub struct %s {\n%s}\n" % (name, "".join(field_decl(f) for f in fields))
    rs += "observe_struct!(%s { %s });\n" % (name, ", ".join(f.rust for f in fields))
    if cdefault:
        rs += "impl Default for %s {\n    fn default() -> Self {\n        container_default_seam(%d);\n        %s { %s }\n    }\n}\n" % (
            name, base + 92, name, ", ".join("%s: Default::default()" % f.rust for f in fields))
    elif word:
        # cword / cnone need a plain Default that is not a seam
        rs += "impl Default for %s {\n    fn default() -> Self {\n        %s { %s }\n    }\n}\n" % (
            name, name, ", ".join("%s: %s" % (f.rust, plain_default_expr(f)) for f in fields))
    out_rs.append(rs)
    sc = 'RecvDesc { allow_unknown: %s, container_default: %s, container_post: %s, from_word: %s, from_none: %s, ..recv("%s", Struct(vec![%s])) }' % (
        "true" if allow_unknown else "false",
        "Some(ContainerDefault::Trait(%d))" % (base + 92) if cdefault else "None",
        "Some((Post::AndThen, %d))" % (base + 90) if post == "and_then" else ("Some((Post::Map, %d))" % (base + 90) if post == "map" else "None"),
        "Some(%d)" % (base + 91) if word else "None",
        "Some(%d)" % (base + 91) if word else "None",
        name, ", ".join(field_schema(f, rule) for f in fields))
    out_schema.append("    add(%s);" % sc)
    meta_names.append(name)
    GEN_STRUCTS.append((name, cdefault))


def plain_default_expr(f):
    # value of `#[derive(Default)]`-like construction without going through a seam:
    # the model's plain_default says Opaque for everything except Option (None) and multiple (empty)
    if f.kind in ("pm",):
        return "PM(Tok::Default(0))"
    if f.kind == "box":
        return "Box::new(PM(Tok::Default(0)))"
    return "Default::default()"


def meta_enum(i):
    name = "GE%d" % i
    base = 20000 + i * 100
    rule = R.choice([None, None, "lowercase", "PascalCase", "camelCase", "SCREAMING_SNAKE_CASE", "snake_case"])
    nv = R.randint(1, 5)
    vnames = ["Va", "VbX", "Vc", "VdYz", "Ve"]
    variants = []
    word_used = False
    rs_v, sc_v, obs = "", [], []
    for k in range(nv):
        v = vnames[k]
        site = base + k * 10
        kind = R.choice(["unit", "unit", "newtype", "newtype", "struct"])
        opts = []
        skip = R.random() < 0.15
        rename = None
        if R.random() < 0.2:
            rename = "rv%d" % k
            opts.append('rename = "%s"' % rename)
        if skip:
            opts.append("skip")
        word = False
        if kind == "unit" and not word_used and not skip and R.random() < 0.3:
            word = True
            word_used = True
            opts.append("word")
        vname = rename if rename else rename_variant(rule, v)
        attr = "    #[darling(%s)]\n" % ", ".join(opts) if opts else ""
        if kind == "unit":
            rs_v += "%s    %s,\n" % (attr, v)
            sc_kind = "VariantKind::Unit"
            obs.append('%s::%s => Val::Variant("%s".into(), Box::new(Val::Unit)),' % (name, v, vname))
        elif kind == "newtype":
            t = R.choice(["pm", "opt", "recv", "recv"])
            if t == "pm":
                ty, sty = "PM<%d>" % site, "pm(%d)" % site
            elif t == "opt":
                ty, sty = "Option<PM<%d>>" % site, "opt(pm(%d))" % site
            else:
                rn = R.choice(["S1", "S9"] + [n for n, _ in GEN_STRUCTS[-10:]])
                ty, sty = rn, 'r("%s")' % rn
            rs_v += "%s    %s(%s),\n" % (attr, v, ty)
            sc_kind = "VariantKind::Newtype(%s)" % sty
            obs.append('%s::%s(x) => Val::Variant("%s".into(), Box::new(x.observe())),' % (name, v, vname))
        else:
            fields = gen_fields(site, allow_flatten=False, max_fields=3)
            # struct variants: field options are the same generator; renames follow the container rule
            body = "".join("    " + line + "\n" for f in fields for line in field_decl(f).rstrip("\n").split("\n"))
            rs_v += "%s    %s {\n%s    },\n" % (attr, v, body)
            sc_kind = "VariantKind::Struct { fields: vec![%s], allow_unknown: false }" % ", ".join(field_schema(f, rule) for f in fields)
            obs.append('%s::%s { %s } => Val::Variant("%s".into(), Box::new(Val::Struct("%s".into(), vec![%s]))),' % (
                name, v, ", ".join(f.rust for f in fields), vname, vname,
                ", ".join('("%s".into(), %s.observe())' % (f.rust, f.rust) for f in fields)))
        sc_v.append('VariantDesc { skip: %s, word: %s, ..v("%s", "%s", %s) }' % ("true" if skip else "false", "true" if word else "false", v, vname, sc_kind))
    copts = []
    if rule:
        copts.append('rename_all = "%s"' % rule)
    rs = "#[derive(FromMeta)]\n"
    if copts:
        rs += "#[darling(%s)]\n" % ", ".join(copts)
    rs += "pub enum %s {\n%s}\n" % (name, rs_v)
    rs += "impl Observe for %s {\n    fn observe(&self) -> Val {\n        match self {\n%s\n        }\n    }\n}\n" % (name, "\n".join("            " + o for o in obs))
    out_rs.append(rs)
    out_schema.append('    add(recv("%s", Enum(vec![%s])));' % (name, ", ".join(sc_v)))
    meta_names.append(name)
    GEN_ENUMS.append(name)


SHAPE_WORDS = ["named", "tuple", "newtype", "unit"]


def shape_set(words):
    return "set(%s, %s, %s, %s)" % tuple("true" if w in words else "false" for w in SHAPE_WORDS)


def elem(i):
    kind = R.choice(["Field", "Field", "Variant", "Variant", "TypeParam", "DeriveInput", "DeriveInput", "DeriveInput", "Attributes"])
    name = "GX%d" % i
    base = 30000 + i * 100
    from_ident = kind != "Attributes" and R.random() < 0.25
    fields = gen_fields(base, from_ident=from_ident, max_fields=4)
    attr_names = R.choice([["a"], ["a"], ["a", "b"]])
    rule = R.choice(FIELD_RULES)
    cdefault = kind == "Attributes" and not from_ident and all(f.defaultable for f in fields) and not any(f.kind == "flatten" for f in fields) and R.random() < 0.5
    allow_unknown = R.random() < 0.2
    post = R.choice([None, None, None, "and_then", "map"])
    fwd = R.choice(["none", "none", "bare", "list", "empty"])
    attrs_with = fwd != "none" and R.random() < 0.5
    copts = ["attributes(%s)" % ", ".join(attr_names)]
    if rule:
        copts.append('rename_all = "%s"' % rule)
    if cdefault:
        copts.append("default")
    if from_ident:
        copts.append("from_ident")
    if allow_unknown:
        copts.append("allow_unknown_fields")
    fwd_names = []
    if fwd == "bare":
        copts.append("forward_attrs")
    elif fwd == "list":
        fwd_names = R.choice([["doc"], ["doc", "keep"]])
        copts.append("forward_attrs(%s)" % ", ".join(fwd_names))
    elif fwd == "empty":
        copts.append("forward_attrs()")
    pre = ""
    if post == "and_then":
        pre += "fn %s_then(v: %s) -> darling::Result<%s> {\n    cthen::<%d, %s>(v)\n}\n" % (name.lower(), name, name, base + 90, name)
        copts.append("and_then = %s_then" % name.lower())
    if post == "map":
        pre += "fn %s_map(v: %s) -> %s {\n    cmap::<%d, %s>(v)\n}\n" % (name.lower(), name, name, base + 90, name)
        copts.append("map = %s_map" % name.lower())
    magic_rs, magic_obs, magic_from = "", [], []
    sc = {"has_ident": "false", "supports": "None", "generics": "None", "data": "None", "variant_fields": "None"}
    has_ident = kind != "Attributes" and (from_ident or R.random() < 0.6)
    if has_ident:
        if kind == "Field":
            magic_rs += "    ident: Option<syn::Ident>,\n"
            magic_obs.append('("ident".into(), self.ident.as_ref().map(ident_val).unwrap_or(V::None))')
        else:
            magic_rs += "    ident: syn::Ident,\n"
            magic_obs.append('("ident".into(), ident_val(&self.ident))')
        magic_from.append("ident")
        sc["has_ident"] = "true"
    elif from_ident:
        pass
    if kind == "DeriveInput":
        g = R.choice(["none", "none", "probe", "full"])
        if g == "probe":
            magic_rs += "    generics: GP<%d>,\n" % (base + 80)
            magic_obs.append('("generics".into(), self.generics.observe())')
            magic_from.append("generics: GP(0)")
            sc["generics"] = "Some(GenericsDesc::Probe(%d))" % (base + 80)
        elif g == "full":
            magic_rs += "    generics: ast::Generics<ast::GenericParam<TR1>>,\n"
            magic_obs.append('("generics".into(), self.generics.observe())')
            magic_from.append("generics: ast::Generics { params: vec![], where_clause: None }")
            sc["generics"] = 'Some(GenericsDesc::Full("TR1"))'
    if fwd != "none":
        if attrs_with:
            magic_rs += "    #[darling(with = aw::<%d>)]\n    attrs: AttrProbe,\n" % (base + 81)
            magic_from.append("attrs: AttrProbe(0)")
        else:
            magic_rs += "    attrs: Vec<syn::Attribute>,\n"
            magic_from.append("attrs: vec![]")
        magic_obs.append('("attrs".into(), self.attrs.observe())')
    if kind == "DeriveInput":
        d = R.choice(["none", "with", "unitfp", "vr1fr1", "vr2fr2"])
        if d == "with":
            magic_rs += "    #[darling(with = dw::<%d>)]\n    data: DataProbe,\n" % (base + 82)
            magic_from.append("data: DataProbe")
            sc["data"] = "Some(DataDesc::With(%d))" % (base + 82)
        elif d == "unitfp":
            magic_rs += "    data: ast::Data<(), FP<%d>>,\n" % (base + 83)
            magic_from.append("data: ast::Data::Enum(vec![])")
            sc["data"] = "Some(DataDesc::Data { variant: BodyLeaf::Unit, field: BodyLeaf::Probe(%d) })" % (base + 83)
        elif d == "vr1fr1":
            magic_rs += "    data: ast::Data<VR1, FR1>,\n"
            magic_from.append("data: ast::Data::Enum(vec![])")
            sc["data"] = 'Some(DataDesc::Data { variant: BodyLeaf::Recv("VR1"), field: BodyLeaf::Recv("FR1") })'
        elif d == "vr2fr2":
            magic_rs += "    data: ast::Data<VR2, FR2>,\n"
            magic_from.append("data: ast::Data::Enum(vec![])")
            sc["data"] = 'Some(DataDesc::Data { variant: BodyLeaf::Recv("VR2"), field: BodyLeaf::Recv("FR2") })'
        if d != "none":
            magic_obs.append('("data".into(), self.data.observe())')
        if R.random() < 0.5:
            if R.random() < 0.2:
                copts.append("supports(any)")
                sc["supports"] = "Some(Supports::Any)"
            else:
                sw = [w for w in SHAPE_WORDS if R.random() < 0.5]
                ew = [w for w in SHAPE_WORDS if R.random() < 0.5]
                words = ["struct_" + w for w in sw] + ["enum_" + w for w in ew]
                if not words:
                    words, sw = ["struct_named"], ["named"]
                copts.append("supports(%s)" % ", ".join(words))
                sc["supports"] = "Some(Supports::Sets { structs: %s, enums: %s })" % (shape_set(sw), shape_set(ew))
    if kind == "Variant":
        vf = R.choice(["none", "fp", "fr1"])
        if vf == "fp":
            magic_rs += "    fields: ast::Fields<FP<%d>>,\n" % (base + 84)
            sc["variant_fields"] = "Some(BodyLeaf::Probe(%d))" % (base + 84)
        elif vf == "fr1":
            magic_rs += "    fields: ast::Fields<FR1>,\n"
            sc["variant_fields"] = 'Some(BodyLeaf::Recv("FR1"))'
        if vf != "none":
            magic_obs.append('("fields".into(), self.fields.observe())')
            magic_from.append("fields: ast::Fields::new(ast::Style::Unit, vec![])")
        if R.random() < 0.5:
            if R.random() < 0.2:
                copts.append("supports(any)")
                sc["supports"] = "Some(Supports::Variant(set(true, true, true, true)))"
            else:
                sw = [w for w in SHAPE_WORDS if R.random() < 0.5] or ["unit"]
                copts.append("supports(%s)" % ", ".join(sw))
                sc["supports"] = "Some(Supports::Variant(%s))" % shape_set(sw)
    derive = {"Field": "FromField", "Variant": "FromVariant", "TypeParam": "FromTypeParam", "DeriveInput": "FromDeriveInput", "Attributes": "FromAttributes"}[kind]
    rs = pre + "#[derive(%s)]\n#[darling(%s)]\npub struct %s {\n%s%s}\n" % (derive, ", ".join(copts), name, magic_rs, "".join(field_decl(f) for f in fields))
    obs = magic_obs + ['("%s".into(), self.%s.observe())' % (f.rust, f.rust) for f in fields]
    rs += "impl Observe for %s {\n    fn observe(&self) -> V {\n        V::Struct(\"%s\".into(), vec![%s])\n    }\n}\n" % (name, name, ", ".join(obs))
    if from_ident:
        arg = "Option<syn::Ident>" if kind == "Field" else "syn::Ident"
        inits = []
        for m in magic_from:
            inits.append(m)
        for f in fields:
            if f.kind == "pm":
                inits.append('%s: PM(Tok::FromIdent("%s".into()))' % (f.rust, f.rust))
            elif f.kind == "box":
                inits.append('%s: Box::new(PM(Tok::FromIdent("%s".into())))' % (f.rust, f.rust))
            elif f.kind == "opt":
                inits.append("%s: None" % f.rust)
            elif f.kind == "multi":
                inits.append("%s: vec![]" % f.rust)
            else:
                raise ValueError(f.kind)
        if not has_ident:
            inits = [m for m in inits if m != "ident"]
            rs += "impl From<%s> for %s {\n    fn from(_ident: %s) -> Self {\n        from_ident_seam(%d);\n        %s { %s }\n    }\n}\n" % (arg, name, arg, base + 93, name, ", ".join(inits))
        else:
            rs += "impl From<%s> for %s {\n    fn from(ident: %s) -> Self {\n        from_ident_seam(%d);\n        %s { %s }\n    }\n}\n" % (arg, name, arg, base + 93, name, ", ".join(inits))
    if cdefault:
        rs += "impl Default for %s {\n    fn default() -> Self {\n        container_default_seam(%d);\n        %s { %s }\n    }\n}\n" % (
            name, base + 92, name, ", ".join(["attrs: Default::default()"] * (1 if fwd != "none" and not attrs_with else 0) + ["attrs: AttrProbe(0)"] * (1 if fwd != "none" and attrs_with else 0) + ["%s: Default::default()" % f.rust for f in fields]))
    out_rs.append(rs)
    fwd_sc = {"none": "Forward::None", "bare": "Forward::All", "list": "Forward::Only(vec![%s])" % ", ".join('"%s"' % n for n in fwd_names), "empty": "Forward::Only(vec![])"}[fwd]
    attrs_sc = "None" if fwd == "none" else ("Some(AttrsField::With(%d))" % (base + 81) if attrs_with else "Some(AttrsField::Plain)")
    sc_s = ('ElemDesc { forward: %s, attrs_field: %s, allow_unknown: %s, from_ident: %s, supports: %s, has_ident: %s, generics: %s, data: %s, variant_fields: %s, '
            'container_post: %s, container_default: %s, ..elem("%s", %s, vec![%s], vec![%s]) }') % (
        fwd_sc, attrs_sc, "true" if allow_unknown else "false", "Some(%d)" % (base + 93) if from_ident else "None", sc["supports"], sc["has_ident"],
        sc["generics"], sc["data"], sc["variant_fields"],
        "Some((Post::AndThen, %d))" % (base + 90) if post == "and_then" else ("Some((Post::Map, %d))" % (base + 90) if post == "map" else "None"),
        "Some(ContainerDefault::Trait(%d))" % (base + 92) if cdefault else "None",
        name, kind, ", ".join('"%s"' % a for a in attr_names), ", ".join(field_schema(f, rule) for f in fields))
    out_schema.append("    add(%s);" % sc_s)
    elem_names.append((name, kind))


for i in range(N_META_STRUCT):
    meta_struct(i)
for i in range(N_META_ENUM):
    meta_enum(i)
meta_schema = list(out_schema)
out_schema.clear()
for i in range(N_ELEM):
    elem(i)
elem_schema = list(out_schema)

with open("src/gen_corpus.rs", "w") as fh:
    fh.write("//! GENERATED by gen_corpus.py - do not edit. Receivers drawn from the derive option space.\n\n")
    fh.write("#![allow(dead_code, clippy::all)]\n\n")
    fh.write("use std::collections::{BTreeMap, HashMap};\n\nuse darling::{ast, FromAttributes, FromDeriveInput, FromField, FromMeta, FromTypeParam, FromVariant};\n\n")
    fh.write("use crate::corpus::*;\nuse crate::observe_struct;\nuse crate::probes::Val as V;\nuse crate::probes::*;\nuse crate::world::SimBuildHasher as B;\n\n")
    fh.write("fn ident_val(i: &syn::Ident) -> V {\n    V::S(i.to_string())\n}\n\n")
    fh.write("\n".join(out_rs))
    fh.write("\npub fn run_gen_meta(name: &str, entry: &MetaEntry, meta: &syn::Meta) -> Option<Result<Option<V>, darling::Error>> {\n    match name {\n")
    for n in meta_names:
        fh.write('        "%s" => Some(run_meta::<%s>(entry, meta)),\n' % (n, n))
    fh.write("        _ => None,\n    }\n}\n\n")
    fh.write("pub fn run_gen_elem(name: &str, input: &ElemInput) -> Option<Result<V, darling::Error>> {\n    fn ob<T: Observe>(r: darling::Result<T>) -> Result<V, darling::Error> {\n        r.map(|v| v.observe())\n    }\n    Some(match (name, input) {\n")
    call = {"Field": ("Field(x)", "from_field(x)"), "Variant": ("Variant(x)", "from_variant(x)"), "TypeParam": ("TypeParam(x)", "from_type_param(x)"),
            "DeriveInput": ("DeriveInput(x)", "from_derive_input(x)"), "Attributes": ("Attributes(x)", "from_attributes(x)")}
    for n, k in elem_names:
        fh.write('        ("%s", ElemInput::%s) => ob(%s::%s),\n' % (n, call[k][0], n, call[k][1]))
    fh.write("        _ => return None,\n    })\n}\n")

with open("src/gen_schema.rs", "w") as fh:
    fh.write("//! GENERATED by gen_corpus.py - do not edit. Schema of the generated receivers.\n\n")
    fh.write("#![allow(clippy::all)]\n\nuse std::collections::BTreeMap;\n\nuse crate::schema::ElemKind::*;\nuse crate::schema::Shape::*;\nuse crate::schema::*;\n\n")
    fh.write("pub const META_NAMES: [&str; %d] = [%s];\n" % (len(meta_names), ", ".join('"%s"' % n for n in meta_names)))
    fh.write("pub const ELEM_NAMES: [&str; %d] = [%s];\n\n" % (len(elem_names), ", ".join('"%s"' % n for n, _ in elem_names)))
    fh.write("pub fn add_meta(m: &mut BTreeMap<&'static str, RecvDesc>) {\n    let mut add = |d: RecvDesc| {\n        m.insert(d.name, d);\n    };\n")
    fh.write("\n".join(meta_schema))
    fh.write("\n}\n\npub fn add_elem(m: &mut BTreeMap<&'static str, ElemDesc>) {\n    let mut add = |d: ElemDesc| {\n        m.insert(d.name, d);\n    };\n")
    fh.write("\n".join(elem_schema))
    fh.write("\n}\n")
print("generated %d FromMeta receivers and %d element-level receivers" % (len(meta_names), len(elem_names)))

# every receiver and everything that mentions it goes behind `#[cfg(not(skip = "NAME"))]`
import cfg_corpus  # noqa: E402

cfg_corpus.main()
