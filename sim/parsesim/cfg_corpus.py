#!/usr/bin/env python3
"""Puts every corpus receiver, and everything that mentions it, behind `#[cfg(not(skip = "NAME"))]`.

Why: a change to darling can make its derives reject (or mis-expand) a few of the corpus' receiver
declarations. Without this the whole simulator stops compiling and the check can only say "harness
error". With it, `/verif/check` reads rustc's diagnostics, finds the receivers they point into,
rebuilds with `PARSESIM_SKIP=NAME,NAME` (build.rs turns that into `--cfg skip="NAME"`), and runs the
rest of the corpus; what was excluded is printed and recorded in the evidence.

What it does (idempotent; run it after editing corpus.rs, gen_corpus.py runs it by itself):
  * splits src/corpus.rs and src/gen_corpus.rs into top-level items,
  * finds the receivers (derive(From...) structs / enums and `pub type` root maps),
  * gives every item the cfg of the transitive closure of the receivers it mentions,
  * in the dispatch functions (items that mention many receivers) guards each match arm instead,
  * writes src/skip_table.rs: which receivers a given skip set removes (closure included).
"""
import os
import re
import sys

HERE = os.path.dirname(os.path.abspath(__file__))
FILES = ["src/corpus.rs", "src/gen_corpus.rs"]
CFG_LINE = re.compile(r'^[ \t]*#\[cfg\(not\((any\()?skip = "[^\n]*\n', re.M)
DISPATCH_THRESHOLD = 12


def lex_items(src):
    """Yield (start, end) of top-level items. A tiny lexer: comments, strings, raw strings, chars."""
    i, n = 0, len(src)
    depth = 0
    start = 0
    items = []

    def skip_ws_comments(j):
        while j < n:
            if src[j].isspace():
                j += 1
            elif src.startswith("//", j):
                k = src.find("\n", j)
                j = n if k < 0 else k + 1
            elif src.startswith("/*", j):
                d, j = 1, j + 2
                while j < n and d:
                    if src.startswith("/*", j):
                        d, j = d + 1, j + 2
                    elif src.startswith("*/", j):
                        d, j = d - 1, j + 2
                    else:
                        j += 1
            else:
                break
        return j

    while i < n:
        c = src[i]
        if src.startswith("//", i):
            k = src.find("\n", i)
            i = n if k < 0 else k + 1
        elif src.startswith("/*", i):
            i = skip_ws_comments(i)
        elif c == '"':
            i += 1
            while i < n and src[i] != '"':
                i += 2 if src[i] == "\\" else 1
            i += 1
        elif c == "r" and re.match(r'r#*"', src[i:i + 8]) and (i == 0 or not (src[i - 1].isalnum() or src[i - 1] == "_")):
            m = re.match(r'r(#*)"', src[i:])
            close = '"' + m.group(1)
            k = src.find(close, i + len(m.group(0)))
            i = n if k < 0 else k + len(close)
        elif c == "'":
            # char literal or lifetime
            m = re.match(r"'(\\.[^']*|[^'\\])'", src[i:])
            i += len(m.group(0)) if m else 1
        elif c in "([{":
            depth += 1
            i += 1
        elif c in ")]}":
            depth -= 1
            i += 1
            if depth == 0 and c == "}":
                j = skip_ws_comments(i)
                if j < n and src[j] == ";":
                    i = j + 1
                items.append((start, i))
                start = i
            elif depth == 0 and c == "]" and src[start:i].lstrip().startswith("#!["):
                # inner attribute: an item of its own, never guarded
                items.append((start, i))
                start = i
        elif c == ";" and depth == 0:
            i += 1
            items.append((start, i))
            start = i
        else:
            i += 1
    if src[start:].strip():
        items.append((start, n))
    return items


def code_start(text):
    """Offset of the first line of `text` that is neither blank nor a comment."""
    off = 0
    in_block = 0
    for line in text.splitlines(keepends=True):
        s = line.strip()
        if in_block:
            in_block += s.count("/*") - s.count("*/")
            in_block = max(in_block, 0)
        elif s == "" or s.startswith("//"):
            pass
        elif s.startswith("/*"):
            in_block = s.count("/*") - s.count("*/")
        else:
            return off
        off += len(line)
    return None


DERIVE = re.compile(r"#\[derive\([^)]*\bFrom(Meta|DeriveInput|Field|Variant|TypeParam|Attributes|GenericParam|Generics)\b[^)]*\)\]")


def defining_ranges(path):
    """[(first_line, last_line, receiver)] for the derive items of a corpus file, 1-based, inclusive."""
    src = open(path).read()
    res = []
    for a, b in lex_items(src):
        text = src[a:b]
        if DERIVE.search(text):
            d = re.search(r"\bpub\s+(?:struct|enum)\s+([A-Za-z_][A-Za-z0-9_]*)", text)
            cs = code_start(text)
            if d and cs is not None:
                first = src.count("\n", 0, a + cs) + 1
                last = src.count("\n", 0, b) + 1
                res.append((first, last, d.group(1)))
    return res


def main():
    sources = {}
    for f in FILES:
        src = open(os.path.join(HERE, f)).read()
        sources[f] = CFG_LINE.sub("", src)

    # receivers
    defining = {}  # name -> item text
    parsed = {}
    for f, src in sources.items():
        items = [(a, b, src[a:b]) for a, b in lex_items(src)]
        parsed[f] = items
        for _, _, text in items:
            if DERIVE.search(text):
                d = re.search(r"\bpub\s+(?:struct|enum)\s+([A-Za-z_][A-Za-z0-9_]*)", text)
                if d:
                    defining[d.group(1)] = text
                continue
            cs = code_start(text)
            t = re.match(r"pub\s+type\s+([A-Za-z_][A-Za-z0-9_]*)\s*=", text[cs:]) if cs is not None else None
            if t:
                defining[t.group(1)] = text
    names = sorted(defining)
    word = re.compile(r"\b(" + "|".join(re.escape(x) for x in sorted(names, key=len, reverse=True)) + r")\b")

    def mentions(text):
        return set(word.findall(text))

    deps = {r: mentions(defining[r]) - {r} for r in names}
    closure = {}
    for r in names:
        seen, todo = set(), [r]
        while todo:
            x = todo.pop()
            if x in seen:
                continue
            seen.add(x)
            todo.extend(deps[x])
        closure[r] = seen

    def cfg_for(ms, indent=""):
        allr = set()
        for m in ms:
            allr |= closure[m]
        if not allr:
            return ""
        parts = ", ".join('skip = "%s"' % x for x in sorted(allr))
        if len(allr) == 1:
            return '%s#[cfg(not(%s))]\n' % (indent, parts)
        return '%s#[cfg(not(any(%s)))]\n' % (indent, parts)

    for f, items in parsed.items():
        out = []
        for _, _, text in items:
            ms = mentions(text)
            if text.lstrip().startswith("#!["):
                out.append(text)
            elif len(ms) >= DISPATCH_THRESHOLD:
                # dispatch function: guard each arm
                lines = text.splitlines(keepends=True)
                res = []
                for line in lines:
                    lm = mentions(re.sub(r'"[^"]*"', '""', line))
                    if lm and "=>" in line and line.rstrip().endswith(","):
                        res.append(cfg_for(lm, re.match(r"\s*", line).group(0)))
                    elif lm:
                        sys.exit("cfg_corpus: cannot guard this line of a dispatch item in %s:\n%s" % (f, line))
                    res.append(line)
                out.append("".join(res))
            elif ms:
                cs = code_start(text)
                out.append(text[:cs] + cfg_for(ms) + text[cs:])
            else:
                out.append(text)
        new = "".join(out)
        tail_start = items[-1][1] if items else 0
        new += sources[f][tail_start:]
        path = os.path.join(HERE, f)
        if open(path).read() != new:
            open(path, "w").write(new)

    # skip table
    t = ["//! GENERATED by cfg_corpus.py - do not edit. Which receivers a `PARSESIM_SKIP` build leaves out.\n\n"]
    t.append("/// What the build was asked to leave out (receivers that did not compile against this tree).\n")
    t.append('pub const REQUESTED: &str = match option_env!("PARSESIM_SKIP") {\n    Some(s) => s,\n    None => "",\n};\n\n')
    t.append("/// Everything that is actually missing: the requested receivers and all that contain them.\n")
    t.append("#[allow(unused_mut, clippy::vec_init_then_push)]\npub fn skipped() -> Vec<&'static str> {\n    let mut v: Vec<&'static str> = Vec::new();\n")
    for r in names:
        parts = ", ".join('skip = "%s"' % x for x in sorted(closure[r]))
        t.append("    #[cfg(any(%s))]\n    v.push(\"%s\");\n" % (parts, r))
    t.append("    v\n}\n\n")
    t.append("pub const ALL: [&str; %d] = [%s];\n" % (len(names), ", ".join('"%s"' % r for r in names)))
    path = os.path.join(HERE, "src/skip_table.rs")
    new = "".join(t)
    if not os.path.exists(path) or open(path).read() != new:
        open(path, "w").write(new)
    print("cfg_corpus: %d receivers, %d items guarded" % (len(names), sum(1 for f in parsed for _, _, x in parsed[f] if mentions(x))))


if __name__ == "__main__":
    main()
