//! Simulator-owned implementers of darling's extension seams (the stubs). A probe logs what it was
//! handed, looks up its fault in the world, and otherwise returns a token that identifies the
//! input item it was made from, so every value and every error leaf is attributable to one call.

use std::panic::panic_any;

use darling::ast::NestedMeta;
use darling::{Error, FromMeta, Result};
use serde::{Deserialize, Serialize};
use syn::spanned::Spanned;
use syn::Meta;

use crate::world::{self, Call, Fault, Key, Range, SimPanic, SpanSel};

/// What a probe value remembers about how it was made.
#[derive(Clone, Debug, PartialEq, Serialize, Deserialize)]
pub enum Tok {
    /// made by the conversion of input item `id`
    Item(u32),
    /// made from an item the generator does not know (position)
    Unknown(usize, usize),
    /// `from_none()` of site
    FromNone(u32),
    /// `Default::default()` of site
    Default(u32),
    /// `default = path` callable of site
    DefaultFn(u32),
    /// hook-level probe: which hook made it
    Hook(u32, String),
    /// string hook: the id carried in the string value, if any
    Str(String),
    /// passed through a `map` callable
    Mapped(Box<Tok>),
    /// passed through an `and_then` callable
    Then(Box<Tok>),
    /// made by `From<Ident>`
    FromIdent(String),
}

/// Structural view of parsed values, compared with the model's expectation.
#[derive(Clone, Debug, PartialEq, Serialize, Deserialize)]
pub enum Val {
    Tok(Tok),
    Unit,
    None,
    Some(Box<Val>),
    Seq(Vec<Val>),
    Struct(String, Vec<(String, Val)>),
    Variant(String, Box<Val>),
    /// entries sorted by key text
    Map(Vec<(String, Val)>),
    /// a swallowing wrapper holding an error
    Swallowed,
    U(u64),
    B(bool),
    S(String),
    C(char),
    Inherit,
    /// something the model does not look into (forwarded attributes, types, ...)
    Opaque,
}

pub trait Observe {
    fn observe(&self) -> Val;
}

// ------------------------------------------------------------------------------------------------
// fault firing

fn sel_span(sel: &SpanSel, own_path: Option<proc_macro2::Span>, own_value: Option<proc_macro2::Span>) -> Option<proc_macro2::Span> {
    match sel {
        SpanSel::OwnPath => own_path,
        SpanSel::OwnValue => own_value.or(own_path),
        SpanSel::Remote(pos) => world::token_span(*pos),
    }
}

/// Turn a fault into the error (or panic) it stands for.
pub fn fire(key: &Key, fault: &Fault, own_path: Option<proc_macro2::Span>, own_value: Option<proc_macro2::Span>) -> Error {
    let label = key.label();
    let spanned = |e: Error, sel: &SpanSel| match sel_span(sel, own_path, own_value) {
        Some(sp) => e.with_span(&sp),
        None => e,
    };
    match fault {
        Fault::ErrBare => Error::custom(&label),
        Fault::ErrSpanned(sel) => spanned(Error::custom(&label), sel),
        Fault::ErrLocated => Error::custom(&label).at("deep"),
        Fault::ErrBundle { k, spanned: pre } => {
            let leaves = (0..*k)
                .map(|j| {
                    let e = Error::custom(format!("{}.{}", label, j));
                    match pre {
                        Some((which, sel)) if *which == j => spanned(e, sel),
                        _ => e,
                    }
                })
                .collect();
            Error::multiple(leaves)
        }
        Fault::Panic => panic_any(SimPanic { key: label }),
    }
}

fn meta_value_span(m: &Meta) -> Option<proc_macro2::Span> {
    match m {
        Meta::Path(_) => None,
        Meta::List(l) => Some(l.delimiter.span().join()),
        Meta::NameValue(nv) => Some(nv.value.span()),
    }
}

fn meta_start(m: &Meta) -> world::Pos {
    let p = m.path();
    let sp = match p.leading_colon {
        Some(c) => c.spans[0],
        None => p.segments.first().map(|s| s.ident.span()).unwrap_or_else(proc_macro2::Span::call_site),
    };
    world::pos_of(sp.start())
}

/// The common body of every seam that is handed a meta item.
fn item_seam(site: u32, hook: &str, m: &Meta) -> Result<Tok> {
    let start = meta_start(m);
    let id = world::item_at(start);
    let handed: Range = world::range_of(m.span());
    let key = id.map(Key::Item);
    let fault = key.as_ref().and_then(world::lookup);
    world::log(Call { site, hook: hook.to_string(), item: id, handed: Some(handed), fired: fault.as_ref().map(|f| f.kind_name().to_string()) });
    if let (Some(key), Some(fault)) = (key, fault) {
        return Err(fire(&key, &fault, Some(m.path().span()), meta_value_span(m)));
    }
    Ok(match id {
        Some(id) => Tok::Item(id),
        None => Tok::Unknown(start.0, start.1),
    })
}

/// The common body of every seam that is handed nothing identifiable.
fn site_seam(site: u32, hook: &str) -> Result<()> {
    let key = Key::Site(site, hook.to_string());
    let fault = world::lookup(&key);
    world::log(Call { site, hook: hook.to_string(), item: None, handed: None, fired: fault.as_ref().map(|f| f.kind_name().to_string()) });
    match fault {
        Some(f) => Err(fire(&key, &f, None, None)),
        None => Ok(()),
    }
}

/// Seams that cannot return an error (`default = path`, `Default::default`, `map`, `From<Ident>`):
/// only a panic fault makes sense there.
fn infallible_site_seam(site: u32, hook: &str) {
    let key = Key::Site(site, hook.to_string());
    let fault = world::lookup(&key);
    let fires = matches!(fault, Some(Fault::Panic));
    world::log(Call { site, hook: hook.to_string(), item: None, handed: None, fired: if fires { Some("Panic".into()) } else { None } });
    if fires {
        panic_any(SimPanic { key: key.label() });
    }
}

fn tok_item(t: &Tok) -> Option<u32> {
    match t {
        Tok::Item(i) => Some(*i),
        Tok::Mapped(b) | Tok::Then(b) => tok_item(b),
        _ => None,
    }
}

// ------------------------------------------------------------------------------------------------
// PM<N>: overrides from_meta and from_none

#[derive(Clone, Debug, PartialEq)]
pub struct PM<const N: u32>(pub Tok);

impl<const N: u32> FromMeta for PM<N> {
    fn from_meta(item: &Meta) -> Result<Self> {
        item_seam(N, "from_meta", item).map(PM)
    }

    fn from_none() -> Option<Self> {
        let some = world::from_none_some(N);
        world::log(Call { site: N, hook: "from_none".into(), item: None, handed: None, fired: None });
        if some {
            Some(PM(Tok::FromNone(N)))
        } else {
            None
        }
    }
}

impl<const N: u32> Default for PM<N> {
    fn default() -> Self {
        infallible_site_seam(N, "Default");
        PM(Tok::Default(N))
    }
}

impl<const N: u32> Observe for PM<N> {
    fn observe(&self) -> Val {
        Val::Tok(self.0.clone())
    }
}

/// `with = pw::<N>` on a field of type `PM<N>`
pub fn pw<const N: u32>(m: &Meta) -> Result<PM<N>> {
    item_seam(N, "with", m).map(PM)
}

/// `with = pwo::<N>` on a field of type `Option<PM<N>>`
pub fn pwo<const N: u32>(m: &Meta) -> Result<Option<PM<N>>> {
    item_seam(N, "with", m).map(|t| Some(PM(t)))
}

/// `map = pmap::<N>`
pub fn pmap<const N: u32>(v: PM<N>) -> PM<N> {
    let key = tok_item(&v.0).map(Key::Post);
    let fault = key.as_ref().and_then(world::lookup);
    let fires = matches!(fault, Some(Fault::Panic));
    world::log(Call { site: N, hook: "map".into(), item: tok_item(&v.0), handed: None, fired: if fires { Some("Panic".into()) } else { None } });
    if fires {
        panic_any(SimPanic { key: key.unwrap().label() });
    }
    PM(Tok::Mapped(Box::new(v.0)))
}

/// `and_then = pthen::<N>`
pub fn pthen<const N: u32>(v: PM<N>) -> Result<PM<N>> {
    let key = tok_item(&v.0).map(Key::Post);
    let fault = key.as_ref().and_then(world::lookup);
    world::log(Call { site: N, hook: "and_then".into(), item: tok_item(&v.0), handed: None, fired: fault.as_ref().map(|f| f.kind_name().to_string()) });
    if let (Some(key), Some(fault)) = (key, fault) {
        return Err(fire(&key, &fault, None, None));
    }
    Ok(PM(Tok::Then(Box::new(v.0))))
}

/// `default = pdef::<N>`
pub fn pdef<const N: u32>() -> PM<N> {
    infallible_site_seam(N, "default_fn");
    PM(Tok::DefaultFn(N))
}

/// `default = pdefv::<N>` for `multiple` fields
pub fn pdefv<const N: u32>() -> Vec<PM<N>> {
    infallible_site_seam(N, "default_fn");
    vec![PM(Tok::DefaultFn(N))]
}

// ------------------------------------------------------------------------------------------------
// PH<N>: overrides only hooks, so darling's default routing and its with_span layers lie on the
// fault path

#[derive(Clone, Debug, PartialEq)]
pub struct PH<const N: u32>(pub Tok);

impl<const N: u32> FromMeta for PH<N> {
    fn from_word() -> Result<Self> {
        site_seam(N, "from_word")?;
        Ok(PH(Tok::Hook(N, "word".into())))
    }

    fn from_list(items: &[NestedMeta]) -> Result<Self> {
        site_seam(N, "from_list")?;
        Ok(PH(Tok::Hook(N, format!("list{}", items.len()))))
    }

    fn from_string(value: &str) -> Result<Self> {
        // the string carries the item id: "s<id>"
        let id = value.strip_prefix('s').and_then(|d| d.parse::<u32>().ok());
        let key = id.map(Key::Item);
        let fault = key.as_ref().and_then(world::lookup);
        world::log(Call { site: N, hook: "from_string".into(), item: id, handed: None, fired: fault.as_ref().map(|f| f.kind_name().to_string()) });
        if let (Some(key), Some(fault)) = (key, fault) {
            return Err(fire(&key, &fault, None, None));
        }
        Ok(PH(Tok::Str(value.to_string())))
    }

    fn from_bool(value: bool) -> Result<Self> {
        site_seam(N, "from_bool")?;
        Ok(PH(Tok::Hook(N, format!("bool:{}", value))))
    }

    fn from_char(value: char) -> Result<Self> {
        site_seam(N, "from_char")?;
        Ok(PH(Tok::Hook(N, format!("char:{}", value))))
    }
}

impl<const N: u32> Observe for PH<N> {
    fn observe(&self) -> Val {
        Val::Tok(self.0.clone())
    }
}

// ------------------------------------------------------------------------------------------------
// container-level callables

/// container `and_then = cthen::<SITE, _>`
pub fn cthen<const N: u32, T>(v: T) -> Result<T> {
    site_seam(N, "container_and_then")?;
    Ok(v)
}

/// container `map = cmap::<SITE, _>`
pub fn cmap<const N: u32, T>(v: T) -> T {
    infallible_site_seam(N, "container_map");
    v
}

/// `from_word = cword::<SITE, _>` (container)
pub fn cword<const N: u32, T: Default>() -> Result<T> {
    site_seam(N, "container_from_word")?;
    Ok(T::default())
}

/// `from_none = cnone::<SITE, _>` (container)
pub fn cnone<const N: u32, T: Default>() -> Option<T> {
    let some = world::from_none_some(N);
    world::log(Call { site: N, hook: "container_from_none".into(), item: None, handed: None, fired: None });
    if some {
        Some(T::default())
    } else {
        None
    }
}

/// Called by hand-written `Default` impls of corpus receivers (container `#[darling(default)]`).
pub fn container_default_seam(site: u32) {
    infallible_site_seam(site, "container_default");
}

/// Called by `From<Ident>` impls of corpus receivers (`from_ident`).
pub fn from_ident_seam(site: u32) {
    infallible_site_seam(site, "from_ident");
}

// ------------------------------------------------------------------------------------------------
// Observe for library types

impl<T: Observe> Observe for Option<T> {
    fn observe(&self) -> Val {
        match self {
            None => Val::None,
            Some(v) => Val::Some(Box::new(v.observe())),
        }
    }
}

impl<T: Observe> Observe for Vec<T> {
    fn observe(&self) -> Val {
        Val::Seq(self.iter().map(|v| v.observe()).collect())
    }
}

impl<T: Observe> Observe for Box<T> {
    fn observe(&self) -> Val {
        (**self).observe()
    }
}

impl<T: Observe> Observe for std::rc::Rc<T> {
    fn observe(&self) -> Val {
        (**self).observe()
    }
}

impl<T: Observe> Observe for std::sync::Arc<T> {
    fn observe(&self) -> Val {
        (**self).observe()
    }
}

impl<T: Observe> Observe for std::cell::RefCell<T> {
    fn observe(&self) -> Val {
        self.borrow().observe()
    }
}

impl<T: Observe> Observe for darling::Result<T> {
    fn observe(&self) -> Val {
        match self {
            Ok(v) => v.observe(),
            Err(_) => Val::Swallowed,
        }
    }
}

impl<T: Observe> Observe for std::result::Result<T, Meta> {
    fn observe(&self) -> Val {
        match self {
            Ok(v) => v.observe(),
            Err(_) => Val::Swallowed,
        }
    }
}

impl<T: Observe> Observe for darling::util::SpannedValue<T> {
    fn observe(&self) -> Val {
        (**self).observe()
    }
}

impl<T: Observe, O> Observe for darling::util::WithOriginal<T, O> {
    fn observe(&self) -> Val {
        self.parsed.observe()
    }
}

impl<T: Observe> Observe for darling::util::Override<T> {
    fn observe(&self) -> Val {
        match self {
            darling::util::Override::Inherit => Val::Inherit,
            darling::util::Override::Explicit(v) => v.observe(),
        }
    }
}

pub trait KeyText {
    fn key_text(&self) -> String;
}
impl KeyText for String {
    fn key_text(&self) -> String {
        self.clone()
    }
}
impl KeyText for syn::Ident {
    fn key_text(&self) -> String {
        self.to_string()
    }
}
impl KeyText for syn::Path {
    fn key_text(&self) -> String {
        // the key's identity, leading `::` included (two paths that differ only there are two keys)
        quote::ToTokens::to_token_stream(self).to_string().replace(' ', "")
    }
}

impl<K: KeyText, V: Observe, S> Observe for std::collections::HashMap<K, V, S> {
    fn observe(&self) -> Val {
        let mut v: Vec<(String, Val)> = self.iter().map(|(k, v)| (k.key_text(), v.observe())).collect();
        v.sort_by(|a, b| a.0.cmp(&b.0));
        Val::Map(v)
    }
}

impl<K: KeyText, V: Observe> Observe for std::collections::BTreeMap<K, V> {
    fn observe(&self) -> Val {
        let mut v: Vec<(String, Val)> = self.iter().map(|(k, v)| (k.key_text(), v.observe())).collect();
        v.sort_by(|a, b| a.0.cmp(&b.0));
        Val::Map(v)
    }
}

impl Observe for u8 {
    fn observe(&self) -> Val {
        Val::U(*self as u64)
    }
}
impl Observe for bool {
    fn observe(&self) -> Val {
        Val::B(*self)
    }
}
impl Observe for String {
    fn observe(&self) -> Val {
        Val::S(self.clone())
    }
}
impl Observe for char {
    fn observe(&self) -> Val {
        Val::C(*self)
    }
}
impl Observe for () {
    fn observe(&self) -> Val {
        Val::Unit
    }
}
impl Observe for darling::util::Flag {
    fn observe(&self) -> Val {
        Val::B(self.is_present())
    }
}
impl Observe for darling::util::PathList {
    fn observe(&self) -> Val {
        Val::Seq(self.to_strings().into_iter().map(Val::S).collect())
    }
}
impl Observe for syn::LitStr {
    fn observe(&self) -> Val {
        Val::S(self.value())
    }
}

/// `observe_struct!(Name { a, b, c })`
#[macro_export]
macro_rules! observe_struct {
    ($name:ident { $($f:ident),* $(,)? }) => {
        impl $crate::probes::Observe for $name {
            fn observe(&self) -> $crate::probes::Val {
                $crate::probes::Val::Struct(stringify!($name).to_string(), vec![$((stringify!($f).to_string(), $crate::probes::Observe::observe(&self.$f))),*])
            }
        }
    };
}

// ------------------------------------------------------------------------------------------------
// body-level leaves and whole-part probes (element-level receivers)

fn element_seam(site: u32, hook: &str, start: world::Pos, handed: Range, own: proc_macro2::Span) -> Result<Tok> {
    let id = world::item_at(start);
    let key = id.map(Key::Item);
    let fault = key.as_ref().and_then(world::lookup);
    world::log(Call { site, hook: hook.to_string(), item: id, handed: Some(handed), fired: fault.as_ref().map(|f| f.kind_name().to_string()) });
    if let (Some(key), Some(fault)) = (key, fault) {
        return Err(fire(&key, &fault, Some(own), Some(own)));
    }
    Ok(match id {
        Some(id) => Tok::Item(id),
        None => Tok::Unknown(start.0, start.1),
    })
}

/// `FP<N>`: a `FromField` leaf; the field is identified by where its type starts.
#[derive(Clone, Debug, PartialEq)]
pub struct FP<const N: u32>(pub Tok);

impl<const N: u32> darling::FromField for FP<N> {
    fn from_field(field: &syn::Field) -> Result<Self> {
        let sp = field.ty.span();
        element_seam(N, "from_field", world::pos_of(sp.start()), world::range_of(sp), sp).map(FP)
    }
}

impl<const N: u32> Observe for FP<N> {
    fn observe(&self) -> Val {
        Val::Tok(self.0.clone())
    }
}

/// `GP<N>`: a `FromGenerics` probe (site-keyed).
#[derive(Clone, Debug, PartialEq)]
pub struct GP<const N: u32>(pub usize);

impl<const N: u32> darling::FromGenerics for GP<N> {
    fn from_generics(generics: &syn::Generics) -> Result<Self> {
        site_seam(N, "from_generics")?;
        Ok(GP(generics.params.len()))
    }
}

impl<const N: u32> Observe for GP<N> {
    fn observe(&self) -> Val {
        Val::Opaque
    }
}

/// value of an `attrs` field populated through `with = aw::<N>`
#[derive(Clone, Debug, PartialEq)]
pub struct AttrProbe(pub usize);

pub fn aw<const N: u32>(attrs: Vec<syn::Attribute>) -> Result<AttrProbe> {
    site_seam(N, "attrs_with")?;
    Ok(AttrProbe(attrs.len()))
}

impl Observe for AttrProbe {
    fn observe(&self) -> Val {
        Val::U(self.0 as u64)
    }
}

/// value of a `data` field populated through `with = dw::<N>`
#[derive(Clone, Debug, PartialEq)]
pub struct DataProbe;

pub fn dw<const N: u32>(_data: &syn::Data) -> Result<DataProbe> {
    site_seam(N, "data_with")?;
    Ok(DataProbe)
}

impl Observe for DataProbe {
    fn observe(&self) -> Val {
        Val::Opaque
    }
}

impl Observe for Vec<syn::Attribute> {
    fn observe(&self) -> Val {
        Val::U(self.len() as u64)
    }
}

impl<V: Observe, F: Observe> Observe for darling::ast::Data<V, F> {
    fn observe(&self) -> Val {
        match self {
            darling::ast::Data::Enum(vs) => Val::Seq(vs.iter().map(|v| v.observe()).collect()),
            darling::ast::Data::Struct(fs) => fs.observe(),
        }
    }
}

impl<F: Observe> Observe for darling::ast::Fields<F> {
    fn observe(&self) -> Val {
        Val::Seq(self.fields.iter().map(|f| f.observe()).collect())
    }
}

impl<T: Observe> Observe for darling::ast::GenericParam<T> {
    fn observe(&self) -> Val {
        match self {
            darling::ast::GenericParam::Type(t) => t.observe(),
            _ => Val::Opaque,
        }
    }
}

impl<P: Observe> Observe for darling::ast::Generics<P> {
    fn observe(&self) -> Val {
        Val::Seq(self.params.iter().map(|p| p.observe()).collect())
    }
}

// ------------------------------------------------------------------------------------------------
// PV<N> / PE<N>: user impls that take over literal / expression handling (override `from_value` /
// `from_expr`) and return errors without caring about spans; darling's outer layers must still
// attach the most specific span they know.

#[derive(Clone, Debug, PartialEq)]
pub struct PV<const N: u32>(pub Tok);

impl<const N: u32> FromMeta for PV<N> {
    fn from_value(value: &syn::Lit) -> Result<Self> {
        let sp = value.span();
        element_seam(N, "from_value", world::pos_of(sp.start()), world::range_of(sp), sp).map(PV)
    }
}

impl<const N: u32> Observe for PV<N> {
    fn observe(&self) -> Val {
        Val::Tok(self.0.clone())
    }
}

#[derive(Clone, Debug, PartialEq)]
pub struct PE<const N: u32>(pub Tok);

impl<const N: u32> FromMeta for PE<N> {
    fn from_expr(expr: &syn::Expr) -> Result<Self> {
        let sp = expr.span();
        element_seam(N, "from_expr", world::pos_of(sp.start()), world::range_of(sp), sp).map(PE)
    }
}

impl<const N: u32> Observe for PE<N> {
    fn observe(&self) -> Val {
        Val::Tok(self.0.clone())
    }
}
