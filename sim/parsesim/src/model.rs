//! Reference model of simulator B: (schema, input, environment) -> expected outcome. It knows
//! nothing about darling's code, only what the properties say a parse must produce: which leaves
//! (C02/C14), located where, spanned how (C03), or which value.
//!
//! Spans are modelled per leaf with "first writer wins" (C03: "a span once attached is never
//! replaced by a coarser one") and with a bundle's span reaching every span-less leaf inside it
//! (C03: "or give it its enclosing bundle's span if it had none"), which makes "each layer offers
//! its span to everything that passes through" the whole span semantics.

use std::collections::{BTreeMap, BTreeSet};

use crate::input::{Form, Item, Nested, Value};
use crate::probes::{Tok, Val};
use crate::schema::*;
use crate::world::{Env, Fault, Key, Range, SpanSel};

#[derive(Clone, Debug, PartialEq)]
pub enum Msg {
    Exact(String),
    Prefix(String),
    /// the message names this subject (`name` in backticks); its wording is darling's business
    Contains(String),
    /// a message the model does not predict (syn's own parse errors)
    Any,
}

#[derive(Clone, Debug, PartialEq)]
pub enum Seg {
    Name(String),
    /// `name[<index>]`: the index is darling's business
    Indexed(String),
}

#[derive(Clone, Debug, PartialEq)]
pub enum SpanExp {
    Unset,
    /// exactly this range (pre-spanned foreign errors; absences inside a nested item)
    Exact(Range),
    /// some span inside this range ("inside the attribute item at fault")
    Within(Range),
    /// the property promises nothing checkable (syn's end-of-input errors)
    Unchecked,
}

#[derive(Clone, Debug, PartialEq)]
pub struct Leaf {
    pub msg: Msg,
    pub path: Vec<Seg>,
    pub span: SpanExp,
    /// which kind of mistake or fault this leaf reports (for evidence and rule attribution)
    pub kind: &'static str,
}

pub type Conv = Result<Val, Vec<Leaf>>;

/// A panic fault fired: the parse is expected to unwind with this payload key.
#[derive(Clone, Debug, PartialEq)]
pub struct Abort(pub String);

pub type M<T> = Result<T, Abort>;

/// A leaf made by darling itself. The property fixes *what* is reported (which mistake, where), not
/// the wording: for mistakes about a name the message must name it; for the rest only kind, location
/// and span are compared (`text` documents what darling says today).
fn leaf(kind: &'static str, text: impl Into<String>, span: SpanExp) -> Leaf {
    let text = text.into();
    let msg = match kind {
        "fault" => Msg::Exact(text),
        "duplicate" | "missing" | "unknown" => match (text.find('`'), text.rfind('`')) {
            (Some(a), Some(b)) if b > a => Msg::Contains(text[a..=b].to_string()),
            _ => Msg::Any,
        },
        _ => Msg::Any,
    };
    Leaf { msg, path: Vec::new(), span, kind }
}

fn with_span(ls: &mut [Leaf], exp: SpanExp) {
    for l in ls {
        if l.span == SpanExp::Unset {
            l.span = exp.clone();
        }
    }
}

/// A layer offers the span of the item it was handed. For an absence ("Missing field") the
/// property says the leaf *carries that enclosing item's span*; for everything else, a span inside it.
fn offer_item_span(ls: &mut [Leaf], r: Range) {
    for l in ls {
        if l.span == SpanExp::Unset {
            l.span = if l.kind == "missing" { SpanExp::Exact(r) } else { SpanExp::Within(r) };
        }
    }
}

fn at(ls: &mut [Leaf], seg: Seg) {
    for l in ls {
        l.path.insert(0, seg.clone());
    }
}

fn strip_colon(name: &str) -> &str {
    name.strip_prefix("::").unwrap_or(name)
}

pub struct Model<'a> {
    pub recvs: &'a BTreeMap<&'static str, RecvDesc>,
    faults: BTreeMap<Key, Fault>,
    none_some: BTreeSet<u32>,
    /// path range of every item, by start position (targets of `SpanSel::Remote`)
    pub remote_ranges: BTreeMap<(usize, usize), Range>,
    /// expected number of item-seam calls per item id (C02.R6)
    pub item_calls: BTreeMap<u32, u32>,
    /// faults that fired in the model, by key label -> kind
    pub fired: Vec<(String, &'static str)>,
    /// mistakes the model recognised, by kind
    pub mistakes: Vec<&'static str>,
    /// the run touched a conversion the model does not predict: judge totality only
    pub unpredictable: bool,
    /// ranges of repeated occurrences of single-valued fields: the property does not say whether the
    /// repeat's value is still converted, so a conversion (and its leaves) inside them is tolerated
    pub may_convert: Vec<Range>,
    pub may_convert_ids: BTreeSet<u32>,
    depth: usize,
}

enum Hook<'x> {
    Word,
    List(&'x [Nested]),
    Bool(bool),
    Str(&'x str),
    Char(char),
    Int(&'x str),
}

fn fmt_err(what: &str) -> Leaf {
    leaf("format", format!("Unexpected meta-item format `{}`", what), SpanExp::Unset)
}
fn type_err(what: &str) -> Leaf {
    leaf("type", format!("Unexpected type `{}`", what), SpanExp::Unset)
}

fn default_hook_err(h: &Hook) -> Vec<Leaf> {
    vec![match h {
        Hook::Word => fmt_err("word"),
        Hook::List(_) => fmt_err("list"),
        Hook::Bool(_) => type_err("bool"),
        Hook::Str(_) => type_err("string"),
        Hook::Char(_) => type_err("char"),
        Hook::Int(_) => type_err("int"),
    }]
}

impl<'a> Model<'a> {
    pub fn new(recvs: &'a BTreeMap<&'static str, RecvDesc>, env: &Env) -> Self {
        Model {
            recvs,
            faults: env.faults.iter().cloned().collect(),
            none_some: env.none_some.iter().copied().collect(),
            remote_ranges: BTreeMap::new(),
            item_calls: BTreeMap::new(),
            fired: Vec::new(),
            mistakes: Vec::new(),
            unpredictable: false,
            may_convert: Vec::new(),
            may_convert_ids: BTreeSet::new(),
            depth: 0,
        }
    }

    fn faults_ref(&self) -> &BTreeMap<Key, Fault> {
        &self.faults
    }

    fn mistake(&mut self, kind: &'static str) {
        self.mistakes.push(kind);
    }

    // ---------------------------------------------------------------------------------------
    // faults

    fn sel_range(&self, sel: &SpanSel, own: Option<(Range, Range)>) -> SpanExp {
        match (sel, own) {
            (SpanSel::OwnPath, Some((p, _))) => SpanExp::Exact(p),
            (SpanSel::OwnValue, Some((_, v))) => SpanExp::Exact(v),
            (SpanSel::Remote(pos), _) => match self.remote_ranges.get(pos) {
                Some(r) => SpanExp::Exact(*r),
                None => SpanExp::Unset,
            },
            _ => SpanExp::Unset,
        }
    }

    fn fire(&mut self, key: &Key, fault: &Fault, item: Option<&Item>) -> M<Vec<Leaf>> {
        self.fire_own(key, fault, item.map(|it| (it.r_path, it.r_value.unwrap_or(it.r_path))))
    }

    fn fire_own(&mut self, key: &Key, fault: &Fault, item: Option<(Range, Range)>) -> M<Vec<Leaf>> {
        let label = key.label();
        self.fired.push((label.clone(), fault.kind_name()));
        Ok(match fault {
            Fault::ErrBare => vec![leaf("fault", label, SpanExp::Unset)],
            Fault::ErrSpanned(sel) => vec![leaf("fault", label, self.sel_range(sel, item))],
            Fault::ErrLocated => {
                let mut l = leaf("fault", label, SpanExp::Unset);
                l.path.push(Seg::Name("deep".into()));
                vec![l]
            }
            Fault::ErrBundle { k, spanned } => (0..*k)
                .map(|j| {
                    let sp = match spanned {
                        Some((which, sel)) if *which == j => self.sel_range(sel, item),
                        _ => SpanExp::Unset,
                    };
                    leaf("fault", format!("{}.{}", label, j), sp)
                })
                .collect(),
            Fault::Panic => return Err(Abort(label)),
        })
    }

    /// A seam that is handed the item: `PM::from_meta`, `with = pw`.
    fn seam_item(&mut self, it: &Item) -> M<Result<Tok, Vec<Leaf>>> {
        *self.item_calls.entry(it.id).or_insert(0) += 1;
        let key = Key::Item(it.id);
        match self.faults.get(&key).cloned() {
            Some(f) => Ok(Err(self.fire(&key, &f, Some(it))?)),
            None => Ok(Ok(Tok::Item(it.id))),
        }
    }

    /// A seam that is handed the item's value (literal or expression): `PV::from_value`, `PE::from_expr`.
    fn seam_value(&mut self, it: &Item) -> M<Conv> {
        *self.item_calls.entry(it.id).or_insert(0) += 1;
        let key = Key::Item(it.id);
        let rv = it.r_value.unwrap_or(it.r_item);
        match self.faults.get(&key).cloned() {
            Some(f) => Ok(Err(self.fire_own(&key, &f, Some((rv, rv)))?)),
            None => Ok(Ok(Val::Tok(Tok::Item(it.id)))),
        }
    }

    /// A seam that is handed nothing identifiable.
    fn seam_site(&mut self, site: u32, hook: &str) -> M<Result<(), Vec<Leaf>>> {
        let key = Key::Site(site, hook.to_string());
        match self.faults.get(&key).cloned() {
            Some(f) => Ok(Err(self.fire(&key, &f, None)?)),
            None => Ok(Ok(())),
        }
    }

    /// A seam that cannot return an error: only a panic fault fires there.
    fn seam_infallible(&mut self, site: u32, hook: &str) -> M<()> {
        let key = Key::Site(site, hook.to_string());
        if let Some(Fault::Panic) = self.faults.get(&key) {
            self.fired.push((key.label(), "Panic"));
            return Err(Abort(key.label()));
        }
        Ok(())
    }

    // ---------------------------------------------------------------------------------------
    // the trait's default routing

    fn route(&mut self, it: &Item, hooks: &mut dyn FnMut(&mut Self, Hook) -> M<Conv>) -> M<Conv> {
        let mut r = match &it.form {
            Form::Word => hooks(self, Hook::Word)?,
            Form::List(items) => hooks(self, Hook::List(items))?,
            Form::BadList(_) => {
                self.mistake("malformed_list");
                Err(vec![Leaf { msg: Msg::Any, path: vec![], span: SpanExp::Unchecked, kind: "malformed_list" }])
            }
            Form::NV(v) => {
                let rv = it.r_value.unwrap_or(it.r_item);
                let mut r = match v {
                    Value::Bool(b) => hooks(self, Hook::Bool(*b))?,
                    Value::Str(s) => hooks(self, Hook::Str(s))?,
                    Value::Char(c) => hooks(self, Hook::Char(*c))?,
                    Value::Int(s) => hooks(self, Hook::Int(s))?,
                    Value::PathExpr(_) => {
                        self.mistake("value_rejected");
                        Err(vec![type_err("path")])
                    }
                    Value::Raw(_) => {
                        self.unpredictable = true;
                        Ok(Val::Opaque)
                    }
                };
                if let Err(ls) = &mut r {
                    // from_value and from_expr both offer the value's span
                    with_span(ls, SpanExp::Within(rv));
                }
                r
            }
        };
        if let Err(ls) = &mut r {
            offer_item_span(ls, it.r_item);
        }
        Ok(r)
    }

    fn default_hook(&mut self, h: &Hook) -> M<Conv> {
        self.mistake("value_rejected");
        Ok(Err(default_hook_err(h)))
    }

    // ---------------------------------------------------------------------------------------
    // T::from_meta(item)

    pub fn conv(&mut self, ty: &Ty, it: &Item) -> M<Conv> {
        match ty {
            Ty::PM(_) => Ok(self.seam_item(it)?.map(Val::Tok)),
            Ty::PH(site) => {
                let site = *site;
                self.route(it, &mut |m, h| m.ph_hook(site, it, h))
            }
            Ty::PV(_) | Ty::OverridePV(_) => {
                let is_override = matches!(ty, Ty::OverridePV(_));
                self.route(it, &mut |m, h| match h {
                    Hook::Word if is_override => Ok(Ok(Val::Inherit)),
                    // any literal is handed to the user's from_value
                    Hook::Bool(_) | Hook::Str(_) | Hook::Char(_) | Hook::Int(_) => m.seam_value(it),
                    other => m.default_hook(&other),
                })
            }
            Ty::PE(_) => match &it.form {
                // any expression is handed to the user's from_expr; only from_meta's item span follows
                Form::NV(_) => {
                    let mut r = self.seam_value(it)?;
                    if let Err(ls) = &mut r {
                        offer_item_span(ls, it.r_item);
                    }
                    Ok(r)
                }
                _ => self.route(it, &mut |m, h| m.default_hook(&h)),
            },
            Ty::Opt(t) => Ok(self.conv(t, it)?.map(|v| Val::Some(Box::new(v)))),
            Ty::Boxed(t) | Ty::WithOrig(t) => self.conv(t, it),
            Ty::DResult(t) | Ty::MResult(t) => Ok(Ok(self.conv(t, it)?.unwrap_or(Val::Swallowed))),
            Ty::Spanned(t) => {
                let mut r = self.conv(t, it)?;
                if let Err(ls) = &mut r {
                    offer_item_span(ls, it.r_item);
                }
                Ok(r)
            }
            Ty::OverridePH(site) => {
                let site = *site;
                self.route(it, &mut |m, h| match h {
                    Hook::Word => Ok(Ok(Val::Inherit)),
                    other => m.ph_hook(site, it, other),
                })
            }
            Ty::Recv(name) => {
                let d = self.recvs.get(name).expect("receiver in schema").clone();
                self.recv_from_meta(&d, it)
            }
            Ty::Map { key, val, .. } => self.route(it, &mut |m, h| match h {
                Hook::List(items) => m.map_from_list(key, val, items),
                other => m.default_hook(&other),
            }),
            Ty::U8 => self.route(it, &mut |m, h| match h {
                Hook::Int(s) => match s.parse::<u64>() {
                    Ok(v) if v <= 255 => Ok(Ok(Val::U(v))),
                    _ => {
                        m.mistake("value_rejected");
                        Ok(Err(vec![Leaf { msg: Msg::Any, path: vec![], span: SpanExp::Unset, kind: "value" }]))
                    }
                },
                Hook::Str(s) => match s.parse::<u8>() {
                    Ok(v) => Ok(Ok(Val::U(v as u64))),
                    Err(_) => {
                        m.mistake("value_rejected");
                        Ok(Err(vec![leaf("value", format!("Unknown literal value `{}`", s), SpanExp::Unset)]))
                    }
                },
                other => m.default_hook(&other),
            }),
            Ty::Bool => self.route(it, &mut |m, h| match h {
                Hook::Word => Ok(Ok(Val::B(true))),
                Hook::Bool(b) => Ok(Ok(Val::B(b))),
                Hook::Str(s) => match s.parse::<bool>() {
                    Ok(v) => Ok(Ok(Val::B(v))),
                    Err(_) => {
                        m.mistake("value_rejected");
                        Ok(Err(vec![leaf("value", format!("Unknown literal value `{}`", s), SpanExp::Unset)]))
                    }
                },
                other => m.default_hook(&other),
            }),
            Ty::Str => self.route(it, &mut |m, h| match h {
                Hook::Str(s) => Ok(Ok(Val::S(s.to_string()))),
                other => m.default_hook(&other),
            }),
            Ty::Flag => self.route(it, &mut |m, h| match h {
                Hook::Word => Ok(Ok(Val::B(true))),
                other => m.default_hook(&other),
            }),
            Ty::PathList => self.route(it, &mut |m, h| match h {
                Hook::List(items) => {
                    let mut out = Vec::new();
                    for n in items {
                        match n {
                            Nested::Item(x) if matches!(x.form, Form::Word) => out.push(Val::S(strip_colon(&x.name).to_string())),
                            Nested::Item(x) => {
                                m.mistake("value_rejected");
                                return Ok(Err(vec![leaf("type", "Unexpected type `non-word`", SpanExp::Within(x.r_item))]));
                            }
                            Nested::Lit { range, .. } => {
                                m.mistake("value_rejected");
                                return Ok(Err(vec![leaf("type", "Unexpected type `non-word`", SpanExp::Within(*range))]));
                            }
                        }
                    }
                    Ok(Ok(Val::Seq(out)))
                }
                other => m.default_hook(&other),
            }),
            Ty::Any(tag) => {
                self.unpredictable = true;
                self.mistakes.push("probe:builtin_conversion_exercised");
                let _ = tag;
                Ok(Ok(Val::Opaque))
            }
            Ty::Char => self.route(it, &mut |m, h| match h {
                Hook::Char(c) => Ok(Ok(Val::C(c))),
                Hook::Str(s) if s.chars().count() == 1 => Ok(Ok(Val::C(s.chars().next().unwrap()))),
                other => m.default_hook(&other),
            }),
        }
    }

    fn ph_hook(&mut self, site: u32, it: &Item, h: Hook) -> M<Conv> {
        let site_hook = |m: &mut Self, hook: &str, tok: String| -> M<Conv> {
            Ok(match m.seam_site(site, hook)? {
                Ok(()) => Ok(Val::Tok(Tok::Hook(site, tok))),
                Err(ls) => Err(ls),
            })
        };
        match h {
            Hook::Word => site_hook(self, "from_word", "word".into()),
            Hook::List(items) => site_hook(self, "from_list", format!("list{}", items.len())),
            Hook::Bool(b) => site_hook(self, "from_bool", format!("bool:{}", b)),
            Hook::Char(c) => site_hook(self, "from_char", format!("char:{}", c)),
            Hook::Str(s) => {
                // the string carries an item id "s<id>" (normally this item's)
                let id = s.strip_prefix('s').and_then(|d| d.parse::<u32>().ok());
                if let Some(id) = id {
                    *self.item_calls.entry(id).or_insert(0) += 1;
                    let key = Key::Item(id);
                    if let Some(f) = self.faults.get(&key).cloned() {
                        // a hook is handed no syntax: own-span selectors resolve to nothing
                        let _ = it;
                        return Ok(Err(self.fire(&key, &f, None)?));
                    }
                }
                Ok(Ok(Val::Tok(Tok::Str(s.to_string()))))
            }
            Hook::Int(_) => self.default_hook(&h),
        }
    }

    // ---------------------------------------------------------------------------------------
    // T::from_none()

    pub fn from_none(&mut self, ty: &Ty) -> Option<Val> {
        match ty {
            Ty::PM(site) => {
                if self.none_some.contains(site) {
                    Some(Val::Tok(Tok::FromNone(*site)))
                } else {
                    None
                }
            }
            Ty::Opt(_) => Some(Val::None),
            Ty::Flag => Some(Val::B(false)),
            Ty::Boxed(t) | Ty::DResult(t) => self.from_none(t),
            Ty::Recv(name) => {
                let d = self.recvs.get(name).expect("receiver in schema").clone();
                match d.from_none {
                    Some(site) if self.none_some.contains(&site) => Some(self.plain_default(&d)),
                    _ => None,
                }
            }
            _ => None,
        }
    }

    /// `#[derive(Default)]`-style value of a receiver used by `cword` / `cnone`.
    fn plain_default(&self, d: &RecvDesc) -> Val {
        match &d.shape {
            Shape::Struct(fields) => Val::Struct(
                d.name.to_string(),
                fields
                    .iter()
                    .map(|f| {
                        (
                            f.rust.to_string(),
                            match (&f.ty, f.multiple) {
                                (_, true) => Val::Seq(vec![]),
                                (Ty::Opt(_), _) => Val::None,
                                _ => Val::Opaque,
                            },
                        )
                    })
                    .collect(),
            ),
            Shape::Enum(vs) => Val::Variant(vs[0].name.to_string(), Box::new(Val::Unit)),
            Shape::Unit => Val::Struct(d.name.to_string(), vec![]),
            Shape::Newtype(_) | Shape::Alias(_) => Val::Opaque,
        }
    }

    /// `Default::default()` of a type: a seam for probes and for receivers with hand-written impls.
    fn default_val(&mut self, ty: &Ty, multiple: bool) -> M<Val> {
        if multiple {
            return Ok(Val::Seq(vec![]));
        }
        Ok(match ty {
            Ty::PM(site) => {
                self.seam_infallible(*site, "Default")?;
                Val::Tok(Tok::Default(*site))
            }
            Ty::Opt(_) => Val::None,
            Ty::Map { .. } => Val::Map(vec![]),
            Ty::Boxed(t) => self.default_val(t, false)?,
            Ty::U8 => Val::U(0),
            Ty::Bool | Ty::Flag => Val::B(false),
            Ty::Str => Val::S(String::new()),
            Ty::Recv(name) => {
                let d = self.recvs.get(name).expect("receiver in schema").clone();
                match (&d.container_default, &d.shape) {
                    (Some(ContainerDefault::Trait(site)), Shape::Struct(fields)) => {
                        self.seam_infallible(*site, "container_default")?;
                        let mut out = Vec::new();
                        for f in fields {
                            out.push((f.rust.to_string(), self.default_val(&f.ty, f.multiple)?));
                        }
                        Val::Struct(d.name.to_string(), out)
                    }
                    _ => self.plain_default(&d),
                }
            }
            _ => Val::Opaque,
        })
    }

    // ---------------------------------------------------------------------------------------
    // derived receivers

    fn recv_from_meta(&mut self, d: &RecvDesc, it: &Item) -> M<Conv> {
        match &d.shape {
            Shape::Alias(t) => self.conv(t, it),
            Shape::Newtype(t) => {
                let mut r = self.conv(t, it)?;
                if let Err(ls) = &mut r {
                    offer_item_span(ls, it.r_item);
                }
                Ok(r)
            }
            _ => self.route(it, &mut |m, h| m.recv_hook(d, it, h)),
        }
    }

    /// `T::from_word()` called directly.
    pub fn from_word_entry(&mut self, d: &RecvDesc) -> M<Conv> {
        match d.shape {
            Shape::Newtype(_) | Shape::Alias(_) => self.default_hook(&Hook::Word),
            _ => self.recv_word(d),
        }
    }

    fn recv_word(&mut self, d: &RecvDesc) -> M<Conv> {
        if let Shape::Unit = d.shape {
            return Ok(Ok(Val::Struct(d.name.to_string(), vec![])));
        }
        if let Shape::Enum(vs) = &d.shape {
            if let Some(wv) = vs.iter().find(|v| v.word) {
                return Ok(Ok(Val::Variant(wv.name.to_string(), Box::new(Val::Unit))));
            }
        }
        match d.from_word {
            Some(site) => Ok(match self.seam_site(site, "container_from_word")? {
                Ok(()) => Ok(self.plain_default(d)),
                Err(ls) => Err(ls),
            }),
            None => self.default_hook(&Hook::Word),
        }
    }

    fn recv_hook(&mut self, d: &RecvDesc, _it: &Item, h: Hook) -> M<Conv> {
        match (&d.shape, h) {
            (_, Hook::Word) => self.recv_word(d),
            (Shape::Struct(fields), Hook::List(items)) => self.struct_from_list(d, fields, d.allow_unknown, items),
            (Shape::Enum(vs), Hook::List(items)) => self.enum_from_list(d, vs, items),
            (Shape::Enum(vs), Hook::Str(s)) => self.enum_from_string(vs, s),
            (_, other) => self.default_hook(&other),
        }
    }

    /// `T::from_list(items)`, as `#[darling(flatten)]` calls it.
    pub fn conv_from_list(&mut self, ty: &Ty, items: &[Nested]) -> M<Conv> {
        match ty {
            Ty::Recv(name) => {
                let d = self.recvs.get(name).expect("receiver in schema").clone();
                if let Shape::Alias(t) = &d.shape {
                    return self.conv_from_list(t, items);
                }
                self.recv_hook(&d, &dummy_item(), Hook::List(items))
            }
            Ty::Map { key, val, .. } => self.map_from_list(key, val, items),
            Ty::DResult(t) => Ok(Ok(self.conv_from_list(t, items)?.unwrap_or(Val::Swallowed))),
            Ty::Boxed(t) => self.conv_from_list(t, items),
            _ => self.default_hook(&Hook::List(items)),
        }
    }

    pub fn struct_from_list(&mut self, d: &RecvDesc, fields: &[FieldDesc], allow_unknown: bool, items: &[Nested]) -> M<Conv> {
        let mut st = StructState::new(fields);
        self.core_loop(fields, allow_unknown, items, &mut st)?;
        self.finish_struct(d.name, fields, d.container_default.as_ref(), d.container_post.as_ref(), st)
    }

    pub fn core_loop(&mut self, fields: &[FieldDesc], allow_unknown: bool, items: &[Nested], st: &mut StructState) -> M<()> {
        let has_flatten = fields.iter().any(|f| f.flatten);
        for n in items {
            match n {
                Nested::Lit { range, .. } => {
                    self.mistake("literal_item");
                    st.leaves.push(leaf("literal_item", "Unexpected meta-item format `literal`", SpanExp::Within(*range)));
                }
                Nested::Item(it) => {
                    let name = strip_colon(&it.name);
                    match fields.iter().find(|f| !f.skip && !f.flatten && f.name == name) {
                        Some(fd) if fd.multiple => match self.extract(fd, it)? {
                            Ok(v) => st.multi.entry(fd.rust).or_default().push(v),
                            Err(mut ls) => {
                                at(&mut ls, Seg::Indexed(fd.name.to_string()));
                                st.leaves.extend(ls);
                            }
                        },
                        Some(fd) => {
                            if !st.seen.contains(fd.rust) {
                                st.seen.insert(fd.rust);
                                match self.extract(fd, it)? {
                                    Ok(v) => {
                                        st.slots.insert(fd.rust, v);
                                    }
                                    Err(mut ls) => {
                                        at(&mut ls, Seg::Name(fd.name.to_string()));
                                        st.leaves.extend(ls);
                                    }
                                }
                            } else {
                                self.mistake("repeated_name");
                                st.leaves.push(leaf("duplicate", format!("Duplicate field `{}`", fd.name), SpanExp::Within(it.r_item)));
                                self.may_convert.push(it.r_item);
                                fn ids(it: &Item, out: &mut BTreeSet<u32>) {
                                    out.insert(it.id);
                                    if let Form::List(inner) = &it.form {
                                        for n in inner {
                                            if let Nested::Item(x) = n {
                                                ids(x, out);
                                            }
                                        }
                                    }
                                }
                                ids(it, &mut self.may_convert_ids);
                            }
                        }
                        None => {
                            if has_flatten {
                                st.flat.push(Nested::Item(it.clone()));
                            } else if !allow_unknown {
                                self.mistake("unknown_name");
                                st.leaves.push(Leaf {
                                    msg: Msg::Contains(format!("`{}`", name)),
                                    path: vec![],
                                    span: SpanExp::Within(it.r_item),
                                    kind: "unknown",
                                });
                            }
                        }
                    }
                }
            }
        }
        Ok(())
    }

    fn extract(&mut self, fd: &FieldDesc, it: &Item) -> M<Conv> {
        let mut r: Conv = if fd.with {
            let wraps_option = matches!(fd.ty, Ty::Opt(_));
            self.seam_item(it)?.map(|t| if wraps_option { Val::Some(Box::new(Val::Tok(t))) } else { Val::Tok(t) })
        } else {
            self.conv(&fd.ty, it)?
        };
        if let Ok(v) = &r {
            let item_of = |v: &Val| match v {
                Val::Tok(t) => Some(t.clone()),
                _ => None,
            };
            match fd.post {
                Post::None => {}
                Post::Map => {
                    if let Some(Tok::Item(id)) = item_of(v) {
                        if let Some(Fault::Panic) = self.faults.get(&Key::Post(id)) {
                            self.fired.push((Key::Post(id).label(), "Panic"));
                            return Err(Abort(Key::Post(id).label()));
                        }
                    }
                    r = Ok(Val::Tok(Tok::Mapped(Box::new(item_of(v).expect("map applies to probe values")))));
                }
                Post::AndThen => {
                    let tok = item_of(v).expect("and_then applies to probe values");
                    let mut failed = None;
                    if let Tok::Item(id) = &tok {
                        let key = Key::Post(*id);
                        if let Some(f) = self.faults.get(&key).cloned() {
                            failed = Some(self.fire(&key, &f, None)?);
                        }
                    }
                    r = match failed {
                        Some(ls) => Err(ls),
                        None => Ok(Val::Tok(Tok::Then(Box::new(tok)))),
                    };
                }
            }
        }
        if let Err(ls) = &mut r {
            offer_item_span(ls, it.r_item);
        }
        Ok(r)
    }

    pub fn finish_struct(
        &mut self,
        name: &str,
        fields: &[FieldDesc],
        cdefault: Option<&ContainerDefault>,
        cpost: Option<&(Post, u32)>,
        mut st: StructState,
    ) -> M<Conv> {
        self.finish_checks(fields, cdefault.is_some(), &mut st)?;
        if !st.leaves.is_empty() {
            return Ok(Err(st.leaves));
        }
        let inherited = self.container_default(fields, cdefault)?;
        let out = self.build_fields(fields, &inherited, &mut st)?;
        let val = Val::Struct(name.to_string(), out);
        self.container_post(cpost, val)
    }

    /// The flatten hand-off and the presence checks: everything that can still add leaves.
    pub fn finish_checks(&mut self, fields: &[FieldDesc], has_container_default: bool, st: &mut StructState) -> M<()> {
        if let Some(ff) = fields.iter().find(|f| f.flatten) {
            match self.conv_from_list(&ff.ty, &st.flat.clone())? {
                Ok(v) => {
                    st.slots.insert(ff.rust, v);
                }
                Err(ls) => st.leaves.extend(ls),
            }
            st.seen.insert(ff.rust);
        }
        for fd in fields {
            let has_default = fd.default != FieldDefault::None || has_container_default || fd.skip;
            if !fd.multiple && !has_default && !st.seen.contains(fd.rust) {
                match self.from_none(&fd.ty) {
                    Some(v) => {
                        st.slots.insert(fd.rust, v);
                    }
                    None => {
                        self.mistake("missing");
                        st.leaves.push(leaf("missing", format!("Missing field `{}`", fd.name), SpanExp::Unset));
                    }
                }
            }
        }
        Ok(())
    }

    /// container-level fallback value, evaluated once, only on the success path
    pub fn container_default(&mut self, fields: &[FieldDesc], cdefault: Option<&ContainerDefault>) -> M<BTreeMap<&'static str, Val>> {
        let mut inherited: BTreeMap<&'static str, Val> = BTreeMap::new();
        match cdefault {
            Some(ContainerDefault::Trait(site)) => {
                self.seam_infallible(*site, "container_default")?;
                for f in fields {
                    let v = self.default_val(&f.ty, f.multiple)?;
                    inherited.insert(f.rust, v);
                }
            }
            Some(ContainerDefault::Fn(site)) => {
                self.seam_infallible(*site, "container_default")?;
                for f in fields {
                    let fsite = match &f.ty {
                        Ty::PM(s) => *s,
                        _ => 0,
                    };
                    inherited.insert(f.rust, Val::Tok(Tok::DefaultFn(fsite)));
                }
            }
            None => {}
        }
        Ok(inherited)
    }

    pub fn build_fields(&mut self, fields: &[FieldDesc], inherited: &BTreeMap<&'static str, Val>, st: &mut StructState) -> M<Vec<(String, Val)>> {
        let mut out = Vec::new();
        for fd in fields {
            let v = if fd.multiple {
                let got = st.multi.remove(fd.rust).unwrap_or_default();
                if !got.is_empty() {
                    Val::Seq(got)
                } else {
                    match &fd.default {
                        FieldDefault::Fn(site) => {
                            self.seam_infallible(*site, "default_fn")?;
                            Val::Seq(vec![Val::Tok(Tok::DefaultFn(*site))])
                        }
                        FieldDefault::Trait => Val::Seq(vec![]),
                        FieldDefault::None => match inherited.get(fd.rust) {
                            Some(v) => v.clone(),
                            None => Val::Seq(vec![]),
                        },
                    }
                }
            } else if let Some(v) = st.slots.remove(fd.rust) {
                v
            } else {
                match &fd.default {
                    FieldDefault::Fn(site) => {
                        self.seam_infallible(*site, "default_fn")?;
                        Val::Tok(Tok::DefaultFn(*site))
                    }
                    FieldDefault::Trait => self.default_val(&fd.ty, false)?,
                    FieldDefault::None => match inherited.get(fd.rust) {
                        Some(v) => v.clone(),
                        // a skipped field without any default uses Default::default()
                        None => self.default_val(&fd.ty, false)?,
                    },
                }
            };
            out.push((fd.rust.to_string(), v));
        }
        Ok(out)
    }

    fn container_post(&mut self, cpost: Option<&(Post, u32)>, val: Val) -> M<Conv> {
        match cpost {
            Some((Post::AndThen, site)) => Ok(match self.seam_site(*site, "container_and_then")? {
                Ok(()) => Ok(val),
                Err(ls) => Err(ls),
            }),
            Some((Post::Map, site)) => {
                self.seam_infallible(*site, "container_map")?;
                Ok(Ok(val))
            }
            _ => Ok(Ok(val)),
        }
    }

    fn enum_from_list(&mut self, _d: &RecvDesc, vs: &[VariantDesc], items: &[Nested]) -> M<Conv> {
        match items.len() {
            0 => {
                self.mistake("enum_arity");
                Ok(Err(vec![leaf("arity", "Too few items: Expected at least 1", SpanExp::Unset)]))
            }
            1 => match &items[0] {
                Nested::Lit { .. } => {
                    self.mistake("literal_item");
                    Ok(Err(vec![fmt_err("literal")]))
                }
                Nested::Item(it) => {
                    let name = strip_colon(&it.name);
                    match vs.iter().find(|v| !v.skip && v.name == name) {
                        None => {
                            self.mistake("unknown_name");
                            Ok(Err(vec![Leaf {
                                msg: Msg::Contains(format!("`{}`", name)),
                                path: vec![],
                                span: SpanExp::Within(it.r_item),
                                kind: "unknown",
                            }]))
                        }
                        Some(v) => match &v.kind {
                            VariantKind::Unit => {
                                if let Form::Word = it.form {
                                    Ok(Ok(Val::Variant(v.name.to_string(), Box::new(Val::Unit))))
                                } else {
                                    self.mistake("value_rejected");
                                    Ok(Err(vec![fmt_err("non-path")]))
                                }
                            }
                            VariantKind::Newtype(t) => {
                                let mut r = self.conv(t, it)?;
                                if let Err(ls) = &mut r {
                                    at(ls, Seg::Name(v.name.to_string()));
                                }
                                Ok(r.map(|x| Val::Variant(v.name.to_string(), Box::new(x))))
                            }
                            VariantKind::Struct { fields, allow_unknown } => match &it.form {
                                Form::List(inner) => {
                                    let mut st = StructState::new(fields);
                                    self.core_loop(fields, *allow_unknown, inner, &mut st)?;
                                    let mut r = self.finish_struct(v.name, fields, None, None, st)?;
                                    if let Err(ls) = &mut r {
                                        at(ls, Seg::Name(v.name.to_string()));
                                    }
                                    Ok(r.map(|x| Val::Variant(v.name.to_string(), Box::new(x))))
                                }
                                Form::BadList(_) => {
                                    self.mistake("malformed_list");
                                    Ok(Err(vec![Leaf { msg: Msg::Any, path: vec![], span: SpanExp::Unchecked, kind: "malformed_list" }]))
                                }
                                _ => {
                                    self.mistake("value_rejected");
                                    Ok(Err(vec![fmt_err("non-list")]))
                                }
                            },
                        },
                    }
                }
            },
            _ => {
                self.mistake("enum_arity");
                Ok(Err(vec![leaf("arity", "Too many items: Expected no more than 1", SpanExp::Unset)]))
            }
        }
    }

    fn enum_from_string(&mut self, vs: &[VariantDesc], s: &str) -> M<Conv> {
        match vs.iter().find(|v| !v.skip && v.name == s) {
            None => {
                self.mistake("value_rejected");
                Ok(Err(vec![leaf("value", format!("Unknown literal value `{}`", s), SpanExp::Unset)]))
            }
            Some(v) => match &v.kind {
                VariantKind::Unit => Ok(Ok(Val::Variant(v.name.to_string(), Box::new(Val::Unit)))),
                VariantKind::Newtype(t) => match self.from_none(t) {
                    Some(x) => Ok(Ok(Val::Variant(v.name.to_string(), Box::new(x)))),
                    None => {
                        self.mistake("value_rejected");
                        Ok(Err(vec![fmt_err("literal")]))
                    }
                },
                VariantKind::Struct { .. } => {
                    self.mistake("value_rejected");
                    Ok(Err(vec![fmt_err("literal")]))
                }
            },
        }
    }

    // ---------------------------------------------------------------------------------------
    // keyed collections (C14)

    pub fn map_from_list(&mut self, key: &KeyKind, val: &Ty, items: &[Nested]) -> M<Conv> {
        let mut seen: BTreeSet<String> = BTreeSet::new();
        let mut entries: Vec<(String, Val)> = Vec::new();
        let mut leaves: Vec<Leaf> = Vec::new();
        for n in items {
            match n {
                Nested::Lit { .. } => {
                    self.mistake("literal_item");
                    leaves.push(fmt_err("expression"));
                }
                Nested::Item(it) => {
                    let display = strip_colon(&it.name).to_string();
                    let mut r = self.conv(val, it)?;
                    if let Err(ls) = &mut r {
                        at(ls, Seg::Name(display.clone()));
                    }
                    // key conversion
                    let identity = match key {
                        KeyKind::Str => display.clone(),
                        KeyKind::Path => it.name.clone(),
                        KeyKind::Ident => {
                            if it.name.contains("::") {
                                self.mistake("bad_key");
                                leaves.push(leaf("bad_key", "Key must be an identifier", SpanExp::Within(it.r_item)));
                                if let Err(ls) = r {
                                    leaves.extend(ls);
                                }
                                continue;
                            }
                            display.clone()
                        }
                    };
                    let already = seen.contains(&identity);
                    if already {
                        self.mistake("repeated_name");
                        leaves.push(leaf("duplicate", format!("Duplicate field `{}`", display), SpanExp::Within(it.r_item)));
                    }
                    match r {
                        Ok(_) if already => {}
                        Ok(v) => entries.push((if *key == KeyKind::Path { it.name.clone() } else { display.clone() }, v)),
                        Err(ls) => leaves.extend(ls),
                    }
                    seen.insert(identity);
                }
            }
        }
        if leaves.is_empty() {
            entries.sort_by(|a, b| a.0.cmp(&b.0));
            Ok(Ok(Val::Map(entries)))
        } else {
            Ok(Err(leaves))
        }
    }
}

pub struct StructState {
    pub seen: BTreeSet<&'static str>,
    pub slots: BTreeMap<&'static str, Val>,
    pub multi: BTreeMap<&'static str, Vec<Val>>,
    pub flat: Vec<Nested>,
    pub leaves: Vec<Leaf>,
}

impl StructState {
    pub fn new(_fields: &[FieldDesc]) -> Self {
        StructState { seen: BTreeSet::new(), slots: BTreeMap::new(), multi: BTreeMap::new(), flat: Vec::new(), leaves: Vec::new() }
    }
}

fn dummy_item() -> Item {
    Item { id: 0, name: String::new(), form: Form::Word, r_item: crate::input::ZERO, r_path: crate::input::ZERO, r_value: None, delim: 0 }
}

// ------------------------------------------------------------------------------------------------
// element-level receivers

use crate::input::{Attr, Body, FieldDoc, FieldsDoc, TParamDoc, VariantDoc};

pub struct ElemView<'x> {
    pub attrs: &'x [Attr],
    pub ident: Option<&'x str>,
    pub body: Option<&'x Body>,
    pub generics: &'x [TParamDoc],
    pub vfields: Option<&'x FieldsDoc>,
}

/// The path of a foreign attribute's text: `keep(1 2)` -> `keep`, `a::b(c = 1)` -> `a::b` (which is
/// neither `a` nor `b` to darling: names are compared as whole paths).
fn leading_ident(text: &str) -> &str {
    let end = text.find(|c: char| !(c.is_ascii_alphanumeric() || c == '_' || c == ':')).unwrap_or(text.len());
    &text[..end]
}

fn shape_of(f: &FieldsDoc) -> (&'static str, &'static str) {
    match f {
        FieldsDoc::Unit => ("unit", "no fields"),
        FieldsDoc::Named(_) => ("named", "named fields"),
        FieldsDoc::Tuple(fs) if fs.len() == 1 => ("newtype", "one unnamed field"),
        FieldsDoc::Tuple(_) => ("tuple", "unnamed fields"),
    }
}

fn shape_leaf(desc: &str) -> Leaf {
    let _ = desc;
    Leaf { msg: Msg::Any, path: vec![], span: SpanExp::Unset, kind: "shape" }
}

impl<'a> Model<'a> {
    pub fn elem_parse(&mut self, name: &str, view: &ElemView) -> M<Conv> {
        let d = crate::schema::elems().get(name).expect("element receiver in schema").clone();
        if let Some(inner) = d.newtype_of {
            return self.elem_parse(inner, view);
        }
        let mut st = StructState::new(&d.fields);
        let mut forwarded = 0u64;
        for a in view.attrs {
            let (aname, item) = match a {
                Attr::Meta(it) => (strip_colon(&it.name).to_string(), Some(it)),
                Attr::Foreign(t) => (leading_ident(t).to_string(), None),
            };
            if d.attr_names.contains(&aname.as_str()) {
                if let Some(it) = item {
                    match &it.form {
                        Form::NV(_) => {
                            self.mistake("attr_name_value");
                            st.leaves.push(Leaf {
                                msg: Msg::Any,
                                path: vec![],
                                span: SpanExp::Within(it.r_item),
                                kind: "attr_form",
                            });
                        }
                        Form::Word => {}
                        Form::BadList(_) => {
                            self.mistake("malformed_list");
                            st.leaves.push(Leaf { msg: Msg::Any, path: vec![], span: SpanExp::Unchecked, kind: "malformed_list" });
                        }
                        Form::List(items) => {
                            if !items.is_empty() {
                                self.core_loop(&d.fields, d.allow_unknown, items, &mut st)?;
                            }
                        }
                    }
                }
            } else if d.attrs_field.is_some() {
                match &d.forward {
                    Forward::All => forwarded += 1,
                    Forward::Only(ns) if ns.contains(&aname.as_str()) => forwarded += 1,
                    _ => {}
                }
            }
        }
        if let Some(AttrsField::With(site)) = &d.attrs_field {
            if let Err(ls) = self.seam_site(*site, "attrs_with")? {
                st.leaves.extend(ls);
            }
        }
        // shape validation
        match (&d.supports, view.body, view.vfields) {
            (Some(Supports::Sets { structs, enums }), Some(body), _) => match body {
                Body::Enum(vs) => {
                    if enums.is_empty() {
                        self.mistake("shape");
                        st.leaves.push(shape_leaf("enum"));
                    } else {
                        for v in vs {
                            let (shape, desc) = shape_of(&v.fields);
                            if !enums.accepts(shape) {
                                self.mistake("shape");
                                st.leaves.push(shape_leaf(desc));
                            }
                        }
                    }
                }
                Body::Struct(f) => {
                    if structs.is_empty() {
                        self.mistake("shape");
                        st.leaves.push(shape_leaf("struct"));
                    } else {
                        let (shape, desc) = shape_of(f);
                        if !structs.accepts(shape) {
                            self.mistake("shape");
                            st.leaves.push(shape_leaf(desc));
                        }
                    }
                }
                Body::Union(_) => {
                    // "a union satisfies no struct or enum word (an error, never a crash)"
                    self.mistake("shape");
                    self.mistake("probe:union_reached_shape_validation");
                    st.leaves.push(Leaf { msg: Msg::Any, path: vec![], span: SpanExp::Unset, kind: "shape" });
                }
            },
            (Some(Supports::Variant(set)), _, Some(vf)) => {
                let (shape, desc) = shape_of(vf);
                if !set.accepts(shape) {
                    self.mistake("shape");
                    st.leaves.push(shape_leaf(desc));
                }
            }
            _ => {}
        }
        let has_cdefault = d.from_ident.is_some() || d.container_default.is_some();
        self.finish_checks(&d.fields, has_cdefault, &mut st)?;
        if !st.leaves.is_empty() {
            return Ok(Err(st.leaves));
        }
        let mut inherited: BTreeMap<&'static str, Val> = self.container_default(&d.fields, d.container_default.as_ref())?;
        if let Some(site) = d.from_ident {
            self.seam_infallible(site, "from_ident")?;
            for f in &d.fields {
                inherited.insert(
                    f.rust,
                    match (&f.ty, f.multiple) {
                        (_, true) => Val::Seq(vec![]),
                        (Ty::Opt(_), _) => Val::None,
                        _ => Val::Tok(Tok::FromIdent(f.rust.to_string())),
                    },
                );
            }
        }
        let mut out: Vec<(String, Val)> = Vec::new();
        if d.has_ident {
            out.push((
                "ident".into(),
                match (view.ident, &d.kind) {
                    (Some(i), _) => Val::S(i.to_string()),
                    (None, _) => Val::None,
                },
            ));
        }
        // the body layer: only reached when the attribute layer is clean
        if let Some(g) = &d.generics {
            match g {
                GenericsDesc::Probe(site) => {
                    if let Err(ls) = self.seam_site(*site, "from_generics")? {
                        return Ok(Err(ls));
                    }
                    out.push(("generics".into(), Val::Opaque));
                }
                GenericsDesc::Full(tr) => {
                    let mut params = Vec::new();
                    for tp in view.generics {
                        if tp.kind == "type" {
                            let v = ElemView { attrs: &tp.attrs, ident: Some(&tp.name), body: None, generics: &[], vfields: None };
                            match self.elem_parse(tr, &v)? {
                                Ok(x) => params.push(x),
                                // conversion of generics stops at the first failing parameter
                                Err(ls) => return Ok(Err(ls)),
                            }
                        } else {
                            params.push(Val::Opaque);
                        }
                    }
                    out.push(("generics".into(), Val::Seq(params)));
                }
            }
        }
        if d.attrs_field.is_some() {
            out.push(("attrs".into(), Val::U(forwarded)));
        }
        if let (Some(dd), Some(body)) = (&d.data, view.body) {
            match dd {
                DataDesc::With(site) => {
                    if let Err(ls) = self.seam_site(*site, "data_with")? {
                        return Ok(Err(ls));
                    }
                    out.push(("data".into(), Val::Opaque));
                }
                DataDesc::Data { variant, field } => match self.data_try_from(variant, field, body)? {
                    Ok(v) => out.push(("data".into(), v)),
                    Err(ls) => return Ok(Err(ls)),
                },
            }
        }
        if let (Some(leaf_ty), Some(vf)) = (&d.variant_fields, view.vfields) {
            match self.fields_try_from(leaf_ty, vf)? {
                Ok(v) => out.push(("fields".into(), v)),
                Err(ls) => return Ok(Err(ls)),
            }
        }
        let fields_out = self.build_fields(&d.fields, &inherited, &mut st)?;
        out.extend(fields_out);
        // keep the field order of the hand-written Observe impls: magic first, then darling fields,
        // except receivers observed through observe_struct! (declaration order)
        let val = Val::Struct(d.name.to_string(), reorder(d.name, out));
        self.container_post(d.container_post.as_ref(), val)
    }

    fn body_field(&mut self, leaf_ty: &BodyLeaf, fd: &FieldDoc) -> M<Conv> {
        match leaf_ty {
            BodyLeaf::Unit => Ok(Ok(Val::Unit)),
            BodyLeaf::Recv(n) => {
                let v = ElemView { attrs: &fd.attrs, ident: fd.name.as_deref(), body: None, generics: &[], vfields: None };
                self.elem_parse(n, &v)
            }
            BodyLeaf::Probe(_) => {
                *self.item_calls.entry(fd.id).or_insert(0) += 1;
                let key = Key::Item(fd.id);
                match self.faults_get(&key) {
                    Some(f) => Ok(Err(self.fire_own(&key, &f, Some((fd.r_ty, fd.r_ty)))?)),
                    None => Ok(Ok(Val::Tok(Tok::Item(fd.id)))),
                }
            }
        }
    }

    fn faults_get(&self, key: &Key) -> Option<Fault> {
        self.faults_ref().get(key).cloned()
    }

    pub fn fields_try_from(&mut self, leaf_ty: &BodyLeaf, fields: &FieldsDoc) -> M<Conv> {
        let mut leaves = Vec::new();
        let mut vals = Vec::new();
        match fields {
            FieldsDoc::Unit => {}
            FieldsDoc::Named(fs) => {
                for fd in fs {
                    match self.body_field(leaf_ty, fd)? {
                        Ok(v) => vals.push(v),
                        Err(mut ls) => {
                            if let Some(n) = &fd.name {
                                at(&mut ls, Seg::Name(n.clone()));
                            }
                            leaves.extend(ls);
                        }
                    }
                }
            }
            FieldsDoc::Tuple(fs) => {
                for fd in fs {
                    match self.body_field(leaf_ty, fd)? {
                        Ok(v) => vals.push(v),
                        Err(ls) => leaves.extend(ls),
                    }
                }
            }
        }
        if leaves.is_empty() {
            Ok(Ok(Val::Seq(vals)))
        } else {
            Ok(Err(leaves))
        }
    }

    fn body_variant(&mut self, leaf_ty: &BodyLeaf, v: &VariantDoc) -> M<Conv> {
        match leaf_ty {
            BodyLeaf::Unit | BodyLeaf::Probe(_) => Ok(Ok(Val::Unit)),
            BodyLeaf::Recv(n) => {
                let view = ElemView { attrs: &v.attrs, ident: Some(&v.name), body: None, generics: &[], vfields: Some(&v.fields) };
                self.elem_parse(n, &view)
            }
        }
    }

    pub fn data_try_from(&mut self, variant: &BodyLeaf, field: &BodyLeaf, body: &Body) -> M<Conv> {
        match body {
            Body::Struct(f) => self.fields_try_from(field, f),
            Body::Enum(vs) => {
                let mut leaves = Vec::new();
                let mut vals = Vec::new();
                for v in vs {
                    match self.body_variant(variant, v)? {
                        Ok(x) => vals.push(x),
                        Err(ls) => leaves.extend(ls),
                    }
                }
                if leaves.is_empty() {
                    Ok(Ok(Val::Seq(vals)))
                } else {
                    Ok(Err(leaves))
                }
            }
            Body::Union(_) => {
                self.mistake("union");
                Ok(Err(vec![leaf("union", "Unions are not supported", SpanExp::Unset)]))
            }
        }
    }
}

/// Put the model's fields in the order the receiver's `Observe` impl lists them.
fn reorder(name: &str, mut out: Vec<(String, Val)>) -> Vec<(String, Val)> {
    let order: &[&str] = match name {
        "FR2" => &["attrs", "rest"],
        "FR3" => &["attrs", "p"],
        "DI7" => &["attrs", "p"],
        "DI2" => &["attrs", "data", "q"],
        "DI3" => &["data", "generics", "p"],
        "DI6" => &["data", "p"],
        "AT2" => &["attrs", "e"],
        _ => return out,
    };
    let mut sorted = Vec::new();
    for k in order {
        if let Some(i) = out.iter().position(|(n, _)| n == k) {
            sorted.push(out.remove(i));
        }
    }
    sorted.extend(out);
    sorted
}
