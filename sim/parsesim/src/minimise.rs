//! Delta debugging on the structured scenario while the *same rule* keeps failing: remove faults,
//! remove items at any depth, weaken fault shapes, drop environment answers, flatten layout.

use serde_json::json;

use crate::input::{for_each_item, Attr, Form, Nested};
use crate::run::{self, Scenario};
use crate::schema;
use crate::world::Fault;

pub fn size(sc: &Scenario) -> serde_json::Value {
    let mut items = 0;
    for_each_item(&sc.doc, &mut |_| items += 1);
    json!({"items": items, "faults": sc.env.faults.len(), "from_none_answers": sc.env.none_some.len()})
}

fn fails_same(prop: &str, sc: &Scenario, rule: &str) -> bool {
    // every candidate on a thread of its own: what an earlier candidate left behind on the thread
    // (a caught panic, a failed parse) must not make a later, smaller one look like it fails alone
    let j = std::thread::scope(|s| {
        std::thread::Builder::new().stack_size(64 << 20).spawn_scoped(s, || run::run(sc, schema::recvs())).expect("spawn").join().expect("candidate thread panicked outside a simulated run")
    });
    if j.harness_error.is_some() {
        return false;
    }
    crate::relevant(prop, &sc.mode, &j).iter().any(|f| f.rule == rule)
}

/// All paths to nested entries, deepest last.
fn nested_paths(ns: &[Nested], prefix: &mut Vec<usize>, out: &mut Vec<Vec<usize>>) {
    for (i, n) in ns.iter().enumerate() {
        prefix.push(i);
        out.push(prefix.clone());
        if let Nested::Item(it) = n {
            if let Form::List(inner) = &it.form {
                nested_paths(inner, prefix, out);
            }
        }
        prefix.pop();
    }
}

fn remove_nested(ns: &mut Vec<Nested>, path: &[usize]) -> bool {
    if path.len() == 1 {
        if path[0] < ns.len() {
            ns.remove(path[0]);
            return true;
        }
        return false;
    }
    match ns.get_mut(path[0]) {
        Some(Nested::Item(it)) => match &mut it.form {
            Form::List(inner) => remove_nested(inner, &path[1..]),
            _ => false,
        },
        _ => false,
    }
}

fn attr_lists(sc: &mut Scenario) -> Vec<&mut Vec<Nested>> {
    let mut v = Vec::new();
    fn from_attrs<'a>(attrs: &'a mut [Attr], v: &mut Vec<&'a mut Vec<Nested>>) {
        for a in attrs {
            if let Attr::Meta(it) = a {
                if let Form::List(items) = &mut it.form {
                    v.push(items);
                }
            }
        }
    }
    let doc = &mut sc.doc;
    from_attrs(&mut doc.attrs, &mut v);
    for g in doc.generics.iter_mut() {
        from_attrs(&mut g.attrs, &mut v);
    }
    match &mut doc.body {
        crate::input::Body::Struct(f) => match f {
            crate::input::FieldsDoc::Named(fs) | crate::input::FieldsDoc::Tuple(fs) => fs.iter_mut().for_each(|x| from_attrs(&mut x.attrs, &mut v)),
            _ => {}
        },
        crate::input::Body::Enum(vs) => {
            for var in vs.iter_mut() {
                from_attrs(&mut var.attrs, &mut v);
                match &mut var.fields {
                    crate::input::FieldsDoc::Named(fs) | crate::input::FieldsDoc::Tuple(fs) => fs.iter_mut().for_each(|x| from_attrs(&mut x.attrs, &mut v)),
                    _ => {}
                }
            }
        }
        crate::input::Body::Union(fs) => fs.iter_mut().for_each(|x| from_attrs(&mut x.attrs, &mut v)),
    }
    v
}

pub fn minimise(prop: &str, sc: &Scenario, rule: &str, budget: usize) -> (Scenario, usize) {
    minimise_with(sc, budget, &mut |c| fails_same(prop, c, rule))
}

/// Does a fresh child process die (signal) when it runs this scenario? For violations that kill the
/// process (double panic = abort, stack exhaustion).
pub fn dies_in_child(prop: &str, sc: &Scenario) -> bool {
    use std::io::Write;
    let exe = match std::env::current_exe() {
        Ok(e) => e,
        Err(_) => return false,
    };
    let mut child = match std::process::Command::new(exe)
        .arg("check-stdin")
        .arg(prop)
        .stdin(std::process::Stdio::piped())
        .stdout(std::process::Stdio::null())
        .stderr(std::process::Stdio::null())
        .spawn()
    {
        Ok(c) => c,
        Err(_) => return false,
    };
    if let Some(mut stdin) = child.stdin.take() {
        let _ = stdin.write_all(serde_json::to_string(sc).unwrap_or_default().as_bytes());
    }
    match child.wait() {
        Ok(st) => st.code().is_none(),
        Err(_) => false,
    }
}

pub fn minimise_with(sc: &Scenario, budget: usize, still_fails: &mut dyn FnMut(&Scenario) -> bool) -> (Scenario, usize) {
    let mut cur = sc.clone();
    let mut steps = 0usize;
    let mut progress = true;
    while progress && steps < budget {
        progress = false;
        // faults
        let mut k = cur.env.faults.len();
        while k > 0 && steps < budget {
            k -= 1;
            let mut c = cur.clone();
            c.env.faults.remove(k);
            steps += 1;
            if still_fails(&c) {
                cur = c;
                progress = true;
            }
        }
        // weaker fault shapes
        for k in 0..cur.env.faults.len() {
            let weaker: Vec<Fault> = match &cur.env.faults[k].1 {
                Fault::ErrBundle { k: n, .. } if *n > 2 => vec![Fault::ErrBare, Fault::ErrBundle { k: 2, spanned: None }],
                Fault::ErrBundle { spanned: Some(_), .. } => vec![Fault::ErrBare, Fault::ErrBundle { k: 2, spanned: None }],
                Fault::ErrBundle { .. } | Fault::ErrSpanned(_) | Fault::ErrLocated => vec![Fault::ErrBare],
                _ => vec![],
            };
            for w in weaker {
                if steps >= budget {
                    break;
                }
                let mut c = cur.clone();
                c.env.faults[k].1 = w;
                steps += 1;
                if still_fails(&c) {
                    cur = c;
                    progress = true;
                    break;
                }
            }
        }
        // items, deepest/last first
        let n_lists = attr_lists(&mut cur).len();
        for li in 0..n_lists {
            let mut ps = Vec::new();
            {
                let mut tmp = cur.clone();
                let lists = attr_lists(&mut tmp);
                nested_paths(lists[li], &mut Vec::new(), &mut ps);
            }
            for p in ps.iter().rev() {
                if steps >= budget {
                    break;
                }
                let mut c = cur.clone();
                let ok = {
                    let mut lists = attr_lists(&mut c);
                    remove_nested(lists[li], p)
                };
                if !ok {
                    continue;
                }
                steps += 1;
                if still_fails(&c) {
                    cur = c;
                    progress = true;
                }
            }
        }
        // environment answers and layout
        if !cur.env.none_some.is_empty() && steps < budget {
            let mut c = cur.clone();
            c.env.none_some.clear();
            steps += 1;
            if still_fails(&c) {
                cur = c;
                progress = true;
            }
        }
        if cur.doc.multiline && steps < budget {
            let mut c = cur.clone();
            c.doc.multiline = false;
            // positions of remote-span selectors are stale after a layout change; such a candidate
            // only survives if the rule still fails without them
            steps += 1;
            if still_fails(&c) {
                cur = c;
                progress = true;
            }
        }
    }
    // leave the ranges of the minimised document filled in
    let mut rendered = cur.doc.clone();
    let _ = crate::input::render(&mut rendered);
    cur.doc = rendered;
    (cur, steps)
}
