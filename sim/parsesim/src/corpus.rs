//! The system under simulation: receivers compiled from the working tree's real derive macros.
//! Field types are probes (`PM<site>` / `PH<site>`), so every conversion is a seam the simulator
//! owns. `schema.rs` describes the same receivers as data.

#![allow(dead_code)]

use std::collections::{BTreeMap, HashMap};
use std::rc::Rc;

use darling::util::{Override, SpannedValue, WithOriginal};
use darling::FromMeta;

use crate::observe_struct;
use crate::probes::*;
use crate::world::SimBuildHasher as B;

#[cfg(not(skip = "S1"))]
#[derive(FromMeta)]
pub struct S1 {
    a: PM<101>,
    b: Option<PM<102>>,
    #[darling(default)]
    c: PM<103>,
    #[darling(default = pdef::<104>)]
    d: PM<104>,
}
#[cfg(not(skip = "S1"))]
observe_struct!(S1 { a, b, c, d });

#[cfg(not(skip = "S2"))]
#[derive(FromMeta)]
pub struct S2 {
    #[darling(multiple)]
    m: Vec<PM<201>>,
    #[darling(multiple, default = pdefv::<202>)]
    n: Vec<PM<202>>,
    #[darling(multiple, rename = "o")]
    mo: Vec<PM<203>>,
}
#[cfg(not(skip = "S2"))]
observe_struct!(S2 { m, n, mo });

#[cfg(not(skip = "S3"))]
#[derive(FromMeta)]
pub struct S3 {
    #[darling(with = pw::<301>)]
    a: PM<301>,
    #[darling(map = pmap::<302>)]
    b: PM<302>,
    #[darling(and_then = pthen::<303>)]
    c: PM<303>,
    #[darling(with = pw::<304>, and_then = pthen::<304>, default)]
    d: PM<304>,
}
#[cfg(not(skip = "S3"))]
observe_struct!(S3 { a, b, c, d });

#[cfg(not(skip = "S4"))]
#[derive(FromMeta)]
pub struct S4 {
    #[darling(skip)]
    s: PM<401>,
    #[darling(skip, default = pdef::<402>)]
    t: PM<402>,
    #[darling(rename = "x")]
    r: PM<403>,
}
#[cfg(not(skip = "S4"))]
observe_struct!(S4 { s, t, r });

#[cfg(not(skip = "S5"))]
#[derive(FromMeta)]
#[darling(default)]
pub struct S5 {
    a: PM<501>,
    b: Option<PM<502>>,
    #[darling(default = pdef::<503>)]
    c: PM<503>,
}
#[cfg(not(skip = "S5"))]
observe_struct!(S5 { a, b, c });
#[cfg(not(skip = "S5"))]
impl Default for S5 {
    fn default() -> Self {
        container_default_seam(500);
        S5 { a: Default::default(), b: Default::default(), c: Default::default() }
    }
}

#[cfg(not(skip = "S6"))]
fn df_s6() -> S6 {
    container_default_seam(600);
    S6 { a: PM(Tok::DefaultFn(601)), s: PM(Tok::DefaultFn(602)) }
}

#[cfg(not(skip = "S6"))]
#[derive(FromMeta)]
#[darling(default = df_s6)]
pub struct S6 {
    a: PM<601>,
    #[darling(skip)]
    s: PM<602>,
}
#[cfg(not(skip = "S6"))]
observe_struct!(S6 { a, s });

#[cfg(not(skip = "S7"))]
fn at_s7(v: S7) -> darling::Result<S7> {
    cthen::<700, S7>(v)
}

#[cfg(not(skip = "S7"))]
#[derive(FromMeta)]
#[darling(and_then = at_s7)]
pub struct S7 {
    a: PM<701>,
    b: PM<702>,
}
#[cfg(not(skip = "S7"))]
observe_struct!(S7 { a, b });

#[cfg(not(skip = "S8"))]
fn mp_s8(v: S8) -> S8 {
    cmap::<800, S8>(v)
}

#[cfg(not(skip = "S8"))]
#[derive(FromMeta)]
#[darling(map = mp_s8)]
pub struct S8 {
    a: PM<801>,
}
#[cfg(not(skip = "S8"))]
observe_struct!(S8 { a });

#[cfg(not(skip = "S9"))]
#[derive(FromMeta)]
#[darling(rename_all = "camelCase", allow_unknown_fields)]
pub struct S9 {
    long_name: PM<901>,
    other_one: Option<PM<902>>,
}
#[cfg(not(skip = "S9"))]
observe_struct!(S9 { long_name, other_one });

#[cfg(not(skip = "S10"))]
#[derive(FromMeta)]
pub struct S10 {
    h: PH<1001>,
    i: Option<PH<1002>>,
    #[darling(multiple)]
    j: Vec<PH<1003>>,
}
#[cfg(not(skip = "S10"))]
observe_struct!(S10 { h, i, j });

#[cfg(not(skip = "S11"))]
#[derive(FromMeta)]
pub struct S11 {
    u: u8,
    t: bool,
    s: String,
    c: char,
    p: PM<1101>,
    ou: Option<u8>,
}
#[cfg(not(skip = "S11"))]
observe_struct!(S11 { u, t, s, c, p, ou });

#[cfg(not(any(skip = "N1", skip = "S1", skip = "S5")))]
#[derive(FromMeta)]
pub struct N1 {
    inner: S1,
    opt: Option<S1>,
    #[darling(default)]
    d: S5,
}
#[cfg(not(any(skip = "N1", skip = "S1", skip = "S5")))]
observe_struct!(N1 { inner, opt, d });

#[cfg(not(any(skip = "N1", skip = "N2", skip = "S1", skip = "S5")))]
#[derive(FromMeta)]
pub struct N2 {
    n1: N1,
    p: PM<1301>,
}
#[cfg(not(any(skip = "N1", skip = "N2", skip = "S1", skip = "S5")))]
observe_struct!(N2 { n1, p });

#[cfg(not(skip = "Rec"))]
#[derive(FromMeta)]
pub struct Rec {
    child: Option<Box<Rec>>,
    leaf: Option<PM<1401>>,
}
#[cfg(not(skip = "Rec"))]
observe_struct!(Rec { child, leaf });

#[cfg(not(any(skip = "F1", skip = "S1")))]
#[derive(FromMeta)]
pub struct F1 {
    a: PM<1501>,
    #[darling(flatten)]
    rest: S1,
}
#[cfg(not(any(skip = "F1", skip = "S1")))]
observe_struct!(F1 { a, rest });

#[cfg(not(any(skip = "F1", skip = "F2", skip = "S1")))]
#[derive(FromMeta)]
pub struct F2 {
    a: PM<1601>,
    #[darling(flatten)]
    rest: F1,
}
#[cfg(not(any(skip = "F1", skip = "F2", skip = "S1")))]
observe_struct!(F2 { a, rest });

#[cfg(not(skip = "F3"))]
#[derive(FromMeta)]
pub struct F3 {
    a: PM<1701>,
    #[darling(flatten)]
    rest: HashMap<String, PM<1702>, B>,
}
#[cfg(not(skip = "F3"))]
observe_struct!(F3 { a, rest });

#[cfg(not(any(skip = "F4", skip = "S1")))]
#[derive(FromMeta)]
pub struct F4 {
    a: PM<1801>,
    #[darling(flatten)]
    rest: darling::Result<S1>,
}
#[cfg(not(any(skip = "F4", skip = "S1")))]
observe_struct!(F4 { a, rest });

#[cfg(not(skip = "U1"))]
#[derive(FromMeta)]
pub struct U1;
#[cfg(not(skip = "U1"))]
impl Observe for U1 {
    fn observe(&self) -> Val {
        Val::Struct("U1".into(), vec![])
    }
}

#[cfg(not(skip = "NT1"))]
#[derive(FromMeta)]
pub struct NT1(PM<1901>);
#[cfg(not(skip = "NT1"))]
impl Observe for NT1 {
    fn observe(&self) -> Val {
        self.0.observe()
    }
}

#[cfg(not(any(skip = "NT2", skip = "S1")))]
#[derive(FromMeta)]
pub struct NT2(S1);
#[cfg(not(any(skip = "NT2", skip = "S1")))]
impl Observe for NT2 {
    fn observe(&self) -> Val {
        self.0.observe()
    }
}

#[cfg(not(skip = "W1"))]
fn w1_word() -> darling::Result<W1> {
    cword::<2000, W1>()
}
#[cfg(not(skip = "W1"))]
fn w1_none() -> Option<W1> {
    cnone::<2000, W1>()
}

#[cfg(not(skip = "W1"))]
#[derive(FromMeta, Default)]
#[darling(from_word = w1_word, from_none = w1_none)]
pub struct W1 {
    a: Option<PM<2001>>,
}
#[cfg(not(skip = "W1"))]
observe_struct!(W1 { a });

#[cfg(not(any(skip = "E1", skip = "Rec")))]
#[derive(FromMeta)]
pub enum E1 {
    Unit,
    #[darling(rename = "other")]
    Unit2,
    #[darling(skip)]
    Hidden,
    New(PM<2101>),
    NewOpt(Option<PM<2102>>),
    Rec {
        a: PM<2103>,
        b: Option<PM<2104>>,
    },
}
#[cfg(not(any(skip = "E1", skip = "Rec")))]
impl Observe for E1 {
    fn observe(&self) -> Val {
        match self {
            E1::Unit => Val::Variant("unit".into(), Box::new(Val::Unit)),
            E1::Unit2 => Val::Variant("other".into(), Box::new(Val::Unit)),
            E1::Hidden => Val::Variant("hidden".into(), Box::new(Val::Unit)),
            E1::New(v) => Val::Variant("new".into(), Box::new(v.observe())),
            E1::NewOpt(v) => Val::Variant("new_opt".into(), Box::new(v.observe())),
            E1::Rec { a, b } => Val::Variant(
                "rec".into(),
                Box::new(Val::Struct("rec".into(), vec![("a".into(), a.observe()), ("b".into(), b.observe())])),
            ),
        }
    }
}

#[cfg(not(skip = "E2"))]
#[derive(FromMeta)]
#[darling(rename_all = "SCREAMING_SNAKE_CASE", allow_unknown_fields)]
pub enum E2 {
    #[darling(word)]
    Dflt,
    Data {
        #[darling(multiple)]
        m: Vec<PM<2201>>,
    },
    Loose {
        a: PM<2202>,
    },
}
#[cfg(not(skip = "E2"))]
impl Observe for E2 {
    fn observe(&self) -> Val {
        match self {
            E2::Dflt => Val::Variant("DFLT".into(), Box::new(Val::Unit)),
            E2::Data { m } => Val::Variant("DATA".into(), Box::new(Val::Struct("DATA".into(), vec![("m".into(), m.observe())]))),
            E2::Loose { a } => Val::Variant("LOOSE".into(), Box::new(Val::Struct("LOOSE".into(), vec![("a".into(), a.observe())]))),
        }
    }
}

#[cfg(not(any(skip = "E3", skip = "S1")))]
fn e3_word() -> darling::Result<E3> {
    cword::<2300, E3>()
}

#[cfg(not(any(skip = "E3", skip = "S1")))]
#[derive(FromMeta)]
#[darling(from_word = e3_word)]
pub enum E3 {
    A,
    B(S1),
}
#[cfg(not(any(skip = "E3", skip = "S1")))]
impl Default for E3 {
    fn default() -> Self {
        E3::A
    }
}
#[cfg(not(any(skip = "E3", skip = "S1")))]
impl Observe for E3 {
    fn observe(&self) -> Val {
        match self {
            E3::A => Val::Variant("a".into(), Box::new(Val::Unit)),
            E3::B(v) => Val::Variant("b".into(), Box::new(v.observe())),
        }
    }
}

#[cfg(not(any(skip = "E1", skip = "E2", skip = "EH", skip = "Rec")))]
#[derive(FromMeta)]
pub struct EH {
    e: E1,
    f: Option<E2>,
    #[darling(multiple)]
    g: Vec<E1>,
}
#[cfg(not(any(skip = "E1", skip = "E2", skip = "EH", skip = "Rec")))]
observe_struct!(EH { e, f, g });

#[cfg(not(skip = "WR"))]
#[derive(FromMeta)]
pub struct WR {
    b: Box<PM<2501>>,
    r: Rc<PM<2502>>,
    res: darling::Result<PM<2503>>,
    rm: Result<PM<2504>, syn::Meta>,
    sv: SpannedValue<PM<2505>>,
    wo: WithOriginal<PM<2506>, syn::Meta>,
    ov: Option<Override<PH<2507>>>,
    sh: Option<SpannedValue<PH<2508>>>,
}
#[cfg(not(skip = "WR"))]
observe_struct!(WR { b, r, res, rm, sv, wo, ov, sh });

#[cfg(not(skip = "MP"))]
#[derive(FromMeta)]
pub struct MP {
    #[darling(default)]
    hs: HashMap<String, PM<2601>, B>,
    #[darling(default)]
    hi: HashMap<syn::Ident, PM<2602>, B>,
    #[darling(default)]
    hp: HashMap<syn::Path, PM<2603>, B>,
    #[darling(default)]
    bs: BTreeMap<String, PM<2604>>,
    #[darling(default)]
    bi: BTreeMap<syn::Ident, PM<2605>>,
    #[darling(default)]
    hh: HashMap<String, HashMap<String, PM<2606>, B>, B>,
    #[darling(default)]
    hb: HashMap<String, bool, B>,
    #[darling(default)]
    hu: BTreeMap<String, u8>,
    #[darling(default)]
    hph: HashMap<String, PH<2607>, B>,
}
#[cfg(not(skip = "MP"))]
observe_struct!(MP { hs, hi, hp, bs, bi, hh, hb, hu, hph });

// ------------------------------------------------------------------------------------------------
// dispatch: run an entry point of a receiver by name

use crate::probes::Val as V;
use darling::ast::NestedMeta;

pub enum MetaEntry {
    FromMeta,
    FromList,
    FromNone,
    FromWord,
}

pub fn run_meta<T: FromMeta + Observe>(entry: &MetaEntry, meta: &syn::Meta) -> Result<Option<V>, darling::Error> {
    match entry {
        MetaEntry::FromMeta => T::from_meta(meta).map(|v| Some(v.observe())),
        MetaEntry::FromList => match meta {
            syn::Meta::List(l) => match NestedMeta::parse_meta_list(l.tokens.clone()) {
                Ok(items) => T::from_list(&items).map(|v| Some(v.observe())),
                // not a list of items: there is no `from_list` call to make
                Err(_) => T::from_meta(meta).map(|v| Some(v.observe())),
            },
            _ => T::from_meta(meta).map(|v| Some(v.observe())),
        },
        MetaEntry::FromNone => Ok(T::from_none().map(|v| v.observe())),
        MetaEntry::FromWord => T::from_word().map(|v| Some(v.observe())),
    }
}

#[cfg(not(skip = "S12"))]
#[derive(FromMeta)]
pub struct S12 {
    v: PV<1201>,
    ov: Option<PV<1202>>,
    e: PE<1203>,
    #[darling(multiple)]
    me: Vec<PE<1204>>,
    sv: Option<SpannedValue<PV<1205>>>,
    bv: Option<Box<PE<1206>>>,
    ovr: Option<Override<PV<1207>>>,
}
#[cfg(not(skip = "S12"))]
observe_struct!(S12 { v, ov, e, me, sv, bv, ovr });

#[cfg(not(skip = "S13"))]
#[derive(FromMeta)]
pub struct S13 {
    fl: darling::util::Flag,
    pl: Option<darling::util::PathList>,
    pl2: darling::util::PathList,
    sb: Option<SpannedValue<bool>>,
    p: Option<PM<1311>>,
}
#[cfg(not(skip = "S13"))]
observe_struct!(S13 { fl, pl, pl2, sb, p });

// pairs and triples of field options used together
#[cfg(not(skip = "S14"))]
#[derive(FromMeta)]
pub struct S14 {
    #[darling(multiple, with = pw::<5101>)]
    mw: Vec<PM<5101>>,
    #[darling(multiple, map = pmap::<5102>)]
    mm: Vec<PM<5102>>,
    #[darling(multiple, and_then = pthen::<5103>)]
    ma: Vec<PM<5103>>,
    #[darling(with = pw::<5104>, map = pmap::<5104>)]
    wm: PM<5104>,
    #[darling(with = pw::<5105>, default = pdef::<5105>)]
    wd: PM<5105>,
    #[darling(and_then = pthen::<5106>, default = pdef::<5106>)]
    ad: PM<5106>,
    #[darling(rename = "rn", with = pw::<5107>, default)]
    rw: PM<5107>,
    #[darling(multiple, default)]
    md: Vec<PM<5108>>,
    #[darling(multiple, rename = "mr", default = pdefv::<5109>, and_then = pthen::<5109>)]
    mrd: Vec<PM<5109>>,
    #[darling(with = pwo::<5110>)]
    wo: Option<PM<5110>>,
    #[darling(rename = "ro", default, map = pmap::<5111>)]
    rmap: PM<5111>,
}
#[cfg(not(skip = "S14"))]
observe_struct!(S14 { mw, mm, ma, wm, wd, ad, rw, md, mrd, wo, rmap });

#[cfg(not(any(skip = "S1", skip = "S15")))]
fn s15_then(v: S15) -> darling::Result<S15> {
    cthen::<5210, S15>(v)
}

// container default + and_then + allow_unknown_fields next to flatten, multiple and skip
#[cfg(not(any(skip = "S1", skip = "S15")))]
#[derive(FromMeta)]
#[darling(default, and_then = s15_then, allow_unknown_fields)]
pub struct S15 {
    a: PM<5201>,
    #[darling(multiple)]
    m: Vec<PM<5202>>,
    #[darling(flatten)]
    rest: S1,
    #[darling(skip)]
    sk: PM<5203>,
}
#[cfg(not(any(skip = "S1", skip = "S15")))]
observe_struct!(S15 { a, m, rest, sk });
#[cfg(not(any(skip = "S1", skip = "S15")))]
impl Default for S15 {
    fn default() -> Self {
        container_default_seam(5200);
        S15 {
            a: Default::default(),
            m: Default::default(),
            rest: S1 { a: PM(Tok::Default(101)), b: None, c: PM(Tok::Default(103)), d: PM(Tok::Default(104)) },
            sk: Default::default(),
        }
    }
}

// allow_unknown_fields + flatten without a container default
#[cfg(not(any(skip = "S1", skip = "S16")))]
#[derive(FromMeta)]
#[darling(allow_unknown_fields)]
pub struct S16 {
    a: PM<5251>,
    #[darling(flatten)]
    rest: S1,
}
#[cfg(not(any(skip = "S1", skip = "S16")))]
observe_struct!(S16 { a, rest });

#[cfg(not(skip = "E4"))]
#[derive(FromMeta)]
#[darling(rename_all = "lowercase")]
pub enum E4 {
    #[darling(word)]
    TheDefault,
    #[darling(rename = "nt")]
    Newt(Option<PM<5301>>),
    #[darling(skip)]
    Gone(PM<5302>),
    StructV {
        #[darling(multiple)]
        m: Vec<PM<5303>>,
        #[darling(default)]
        d: PM<5304>,
        #[darling(with = pw::<5305>)]
        w: PM<5305>,
        #[darling(and_then = pthen::<5306>)]
        t: PM<5306>,
        #[darling(rename = "rr", default = pdef::<5307>)]
        r: PM<5307>,
    },
}
#[cfg(not(skip = "E4"))]
impl Observe for E4 {
    fn observe(&self) -> Val {
        match self {
            E4::TheDefault => Val::Variant("thedefault".into(), Box::new(Val::Unit)),
            E4::Newt(v) => Val::Variant("nt".into(), Box::new(v.observe())),
            E4::Gone(v) => Val::Variant("gone".into(), Box::new(v.observe())),
            E4::StructV { m, d, w, t, r } => Val::Variant(
                "structv".into(),
                Box::new(Val::Struct(
                    "structv".into(),
                    vec![("m".into(), m.observe()), ("d".into(), d.observe()), ("w".into(), w.observe()), ("t".into(), t.observe()), ("r".into(), r.observe())],
                )),
            ),
        }
    }
}

// a receiver none of whose fields can be named in the input (unknown-name error without alternatives)
#[cfg(not(skip = "S17"))]
#[derive(FromMeta)]
pub struct S17 {
    #[darling(skip)]
    s: PM<5801>,
}
#[cfg(not(skip = "S17"))]
observe_struct!(S17 { s });

// an enum without variants
#[cfg(not(skip = "E5"))]
#[derive(FromMeta)]
pub enum E5 {}
#[cfg(not(skip = "E5"))]
impl Observe for E5 {
    fn observe(&self) -> Val {
        match *self {}
    }
}

// built-in and library conversions (judged for totality only)
#[cfg(not(skip = "L1"))]
#[derive(FromMeta)]
pub struct L1 {
    i8: Option<i8>,
    i16: Option<i16>,
    i32: Option<i32>,
    i64: Option<i64>,
    i128: Option<i128>,
    isize: Option<isize>,
    u8: Option<u8>,
    u16: Option<u16>,
    u32: Option<u32>,
    u64: Option<u64>,
    u128: Option<u128>,
    usize: Option<usize>,
    nzu8: Option<std::num::NonZeroU8>,
    nzi64: Option<std::num::NonZeroI64>,
    nzu128: Option<std::num::NonZeroU128>,
    f32: Option<f32>,
    f64: Option<f64>,
}

#[cfg(not(skip = "L2"))]
#[derive(FromMeta)]
pub struct L2 {
    string: Option<String>,
    char: Option<char>,
    bool: Option<bool>,
    pathbuf: Option<std::path::PathBuf>,
    unit: Option<()>,
    abool: Option<std::sync::atomic::AtomicBool>,
    path: Option<syn::Path>,
    ident: Option<syn::Ident>,
    expr: Option<syn::Expr>,
    ty: Option<syn::Type>,
    vis: Option<syn::Visibility>,
    wherec: Option<syn::WhereClause>,
    litstr: Option<syn::LitStr>,
    litint: Option<syn::LitInt>,
    litbool: Option<syn::LitBool>,
    lit: Option<syn::Lit>,
    meta: Option<syn::Meta>,
    exprarray: Option<syn::ExprArray>,
    exprpath: Option<syn::ExprPath>,
    exprrange: Option<syn::ExprRange>,
}

#[cfg(not(skip = "L3"))]
#[derive(FromMeta)]
pub struct L3 {
    vlitstr: Option<Vec<syn::LitStr>>,
    vlitint: Option<Vec<syn::LitInt>>,
    vu8: Option<Vec<u8>>,
    vu64: Option<Vec<u64>>,
    vwhere: Option<Vec<syn::WherePredicate>>,
    pathlist: Option<darling::util::PathList>,
    flag: darling::util::Flag,
    identstring: Option<darling::util::IdentString>,
    spbool: Option<SpannedValue<bool>>,
    ovu8: Option<Override<u8>>,
    wobool: Option<WithOriginal<bool, syn::Meta>>,
    punct: Option<syn::punctuated::Punctuated<syn::Ident, syn::Token![,]>>,
    hmss: Option<HashMap<String, String>>,
    rcu8: Option<Rc<u8>>,
    arcs: Option<std::sync::Arc<String>>,
    refb: Option<std::cell::RefCell<bool>>,
    rmeta: Option<Result<u8, syn::Meta>>,
    dres: Option<darling::Result<u8>>,
    #[darling(with = darling::util::parse_expr::preserve_str_literal, map = Some)]
    pexpr: Option<syn::Expr>,
}

#[cfg(not(skip = "L4"))]
#[derive(FromMeta)]
pub struct L4 {
    litfloat: Option<syn::LitFloat>,
    litbyte: Option<syn::LitByte>,
    litbytestr: Option<syn::LitByteStr>,
    litchar: Option<syn::LitChar>,
    literal: Option<proc_macro2::Literal>,
    vlitfloat: Option<Vec<syn::LitFloat>>,
    vlitbyte: Option<Vec<syn::LitByte>>,
    vlitbytestr: Option<Vec<syn::LitByteStr>>,
    vlitchar: Option<Vec<syn::LitChar>>,
    vlitbool: Option<Vec<syn::LitBool>>,
    vliteral: Option<Vec<proc_macro2::Literal>>,
    vu16: Option<Vec<u16>>,
    vu32: Option<Vec<u32>>,
    vusize: Option<Vec<usize>>,
    nzu16: Option<std::num::NonZeroU16>,
    nzu32: Option<std::num::NonZeroU32>,
    nzu64: Option<std::num::NonZeroU64>,
    nzusize: Option<std::num::NonZeroUsize>,
    nzi8: Option<std::num::NonZeroI8>,
    nzi16: Option<std::num::NonZeroI16>,
    nzi32: Option<std::num::NonZeroI32>,
    nzi128: Option<std::num::NonZeroI128>,
    nzisize: Option<std::num::NonZeroIsize>,
    rename: Option<darling::util::Callable>,
    bxstr: Option<Box<String>>,
    rcflag: Option<Rc<darling::util::Flag>>,
    ovbool: Option<Override<bool>>,
    spf64: Option<SpannedValue<f64>>,
    wolit: Option<WithOriginal<syn::LitInt, syn::Meta>>,
}

#[cfg(not(skip = "L5"))]
#[derive(FromMeta)]
pub struct L5 {
    tarray: Option<syn::TypeArray>,
    tbarefn: Option<syn::TypeBareFn>,
    tgroup: Option<syn::TypeGroup>,
    timpl: Option<syn::TypeImplTrait>,
    tinfer: Option<syn::TypeInfer>,
    tmacro: Option<syn::TypeMacro>,
    tnever: Option<syn::TypeNever>,
    tparam: Option<syn::TypeParam>,
    tparen: Option<syn::TypeParen>,
    tpath: Option<syn::TypePath>,
    tptr: Option<syn::TypePtr>,
    tref: Option<syn::TypeReference>,
    tslice: Option<syn::TypeSlice>,
    ttrait: Option<syn::TypeTraitObject>,
    ttuple: Option<syn::TypeTuple>,
    punctexpr: Option<syn::punctuated::Punctuated<syn::Expr, syn::Token![,]>>,
    punctty: Option<syn::punctuated::Punctuated<syn::Type, syn::Token![;]>>,
    hmsu: Option<HashMap<String, Vec<u8>>>,
    bmil: Option<BTreeMap<syn::Ident, syn::LitFloat>>,
    hmpt: Option<HashMap<syn::Path, syn::Type>>,
    #[darling(multiple)]
    many: Vec<syn::LitFloat>,
    #[darling(with = darling::util::parse_expr::parse_str_literal, map = Some)]
    pstr: Option<syn::Expr>,
    spvl: Option<SpannedValue<Vec<syn::LitStr>>>,
    sphm: Option<SpannedValue<HashMap<String, String>>>,
    spmeta: Option<SpannedValue<syn::Meta>>,
    sppl: Option<SpannedValue<darling::util::PathList>>,
    spres: Option<SpannedValue<darling::Result<u8>>>,
    wovl: Option<WithOriginal<Vec<syn::LitInt>, syn::Meta>>,
    ovpl: Option<Override<darling::util::PathList>>,
}

macro_rules! opaque {
    ($($t:ident),*) => {$(
        impl Observe for $t {
            fn observe(&self) -> Val {
                Val::Opaque
            }
        }
    )*};
}
#[cfg(not(skip = "L1"))]
opaque!(L1);
#[cfg(not(skip = "L2"))]
opaque!(L2);
#[cfg(not(skip = "L3"))]
opaque!(L3);
#[cfg(not(skip = "L4"))]
opaque!(L4);
#[cfg(not(skip = "L5"))]
opaque!(L5);

// keyed collections as root targets; R?H* hash maps and their ordered twins R?B* share site ids
#[cfg(not(skip = "RHS"))]
pub type RHS = HashMap<String, PM<2701>, B>;
#[cfg(not(skip = "RBS"))]
pub type RBS = BTreeMap<String, PM<2701>>;
#[cfg(not(skip = "RHI"))]
pub type RHI = HashMap<syn::Ident, PM<2702>, B>;
#[cfg(not(skip = "RBI"))]
pub type RBI = BTreeMap<syn::Ident, PM<2702>>;
#[cfg(not(skip = "RHP"))]
pub type RHP = HashMap<syn::Path, PM<2703>, B>;
#[cfg(not(skip = "RHN"))]
pub type RHN = HashMap<String, HashMap<String, PM<2704>, B>, B>;
#[cfg(not(skip = "RBN"))]
pub type RBN = BTreeMap<String, BTreeMap<String, PM<2704>>>;
#[cfg(not(skip = "RHH"))]
pub type RHH = HashMap<String, PH<2705>, B>;
#[cfg(not(skip = "RBH"))]
pub type RBH = BTreeMap<String, PH<2705>>;
#[cfg(not(skip = "RHB"))]
pub type RHB = HashMap<String, bool, B>;
#[cfg(not(skip = "RBB"))]
pub type RBB = BTreeMap<String, bool>;
#[cfg(not(skip = "RHU"))]
pub type RHU = HashMap<String, u8, B>;
#[cfg(not(skip = "RBU"))]
pub type RBU = BTreeMap<String, u8>;

/// Run a FromMeta-family entry point of the named receiver. `None` = unknown receiver name.
pub fn run_meta_receiver(name: &str, entry: &MetaEntry, meta: &syn::Meta) -> Option<Result<Option<V>, darling::Error>> {
    if let Some(r) = crate::gen_corpus::run_gen_meta(name, entry, meta) {
        return Some(r);
    }
    match name {
        #[cfg(not(skip = "S1"))]
        "S1" => Some(run_meta::<S1>(entry, meta)),
        #[cfg(not(skip = "S2"))]
        "S2" => Some(run_meta::<S2>(entry, meta)),
        #[cfg(not(skip = "S3"))]
        "S3" => Some(run_meta::<S3>(entry, meta)),
        #[cfg(not(skip = "S4"))]
        "S4" => Some(run_meta::<S4>(entry, meta)),
        #[cfg(not(skip = "S5"))]
        "S5" => Some(run_meta::<S5>(entry, meta)),
        #[cfg(not(skip = "S6"))]
        "S6" => Some(run_meta::<S6>(entry, meta)),
        #[cfg(not(skip = "S7"))]
        "S7" => Some(run_meta::<S7>(entry, meta)),
        #[cfg(not(skip = "S8"))]
        "S8" => Some(run_meta::<S8>(entry, meta)),
        #[cfg(not(skip = "S9"))]
        "S9" => Some(run_meta::<S9>(entry, meta)),
        #[cfg(not(skip = "S10"))]
        "S10" => Some(run_meta::<S10>(entry, meta)),
        #[cfg(not(skip = "S11"))]
        "S11" => Some(run_meta::<S11>(entry, meta)),
        #[cfg(not(skip = "S12"))]
        "S12" => Some(run_meta::<S12>(entry, meta)),
        #[cfg(not(skip = "S13"))]
        "S13" => Some(run_meta::<S13>(entry, meta)),
        #[cfg(not(skip = "S14"))]
        "S14" => Some(run_meta::<S14>(entry, meta)),
        #[cfg(not(any(skip = "S1", skip = "S15")))]
        "S15" => Some(run_meta::<S15>(entry, meta)),
        #[cfg(not(any(skip = "S1", skip = "S16")))]
        "S16" => Some(run_meta::<S16>(entry, meta)),
        #[cfg(not(skip = "S17"))]
        "S17" => Some(run_meta::<S17>(entry, meta)),
        #[cfg(not(skip = "E4"))]
        "E4" => Some(run_meta::<E4>(entry, meta)),
        #[cfg(not(skip = "E5"))]
        "E5" => Some(run_meta::<E5>(entry, meta)),
        #[cfg(not(any(skip = "N1", skip = "S1", skip = "S5")))]
        "N1" => Some(run_meta::<N1>(entry, meta)),
        #[cfg(not(any(skip = "N1", skip = "N2", skip = "S1", skip = "S5")))]
        "N2" => Some(run_meta::<N2>(entry, meta)),
        #[cfg(not(skip = "Rec"))]
        "Rec" => Some(run_meta::<Rec>(entry, meta)),
        #[cfg(not(any(skip = "F1", skip = "S1")))]
        "F1" => Some(run_meta::<F1>(entry, meta)),
        #[cfg(not(any(skip = "F1", skip = "F2", skip = "S1")))]
        "F2" => Some(run_meta::<F2>(entry, meta)),
        #[cfg(not(skip = "F3"))]
        "F3" => Some(run_meta::<F3>(entry, meta)),
        #[cfg(not(any(skip = "F4", skip = "S1")))]
        "F4" => Some(run_meta::<F4>(entry, meta)),
        #[cfg(not(skip = "U1"))]
        "U1" => Some(run_meta::<U1>(entry, meta)),
        #[cfg(not(skip = "NT1"))]
        "NT1" => Some(run_meta::<NT1>(entry, meta)),
        #[cfg(not(any(skip = "NT2", skip = "S1")))]
        "NT2" => Some(run_meta::<NT2>(entry, meta)),
        #[cfg(not(skip = "W1"))]
        "W1" => Some(run_meta::<W1>(entry, meta)),
        #[cfg(not(any(skip = "E1", skip = "Rec")))]
        "E1" => Some(run_meta::<E1>(entry, meta)),
        #[cfg(not(skip = "E2"))]
        "E2" => Some(run_meta::<E2>(entry, meta)),
        #[cfg(not(any(skip = "E3", skip = "S1")))]
        "E3" => Some(run_meta::<E3>(entry, meta)),
        #[cfg(not(any(skip = "E1", skip = "E2", skip = "EH", skip = "Rec")))]
        "EH" => Some(run_meta::<EH>(entry, meta)),
        #[cfg(not(skip = "WR"))]
        "WR" => Some(run_meta::<WR>(entry, meta)),
        #[cfg(not(skip = "MP"))]
        "MP" => Some(run_meta::<MP>(entry, meta)),
        #[cfg(not(skip = "L1"))]
        "L1" => Some(run_meta::<L1>(entry, meta)),
        #[cfg(not(skip = "L2"))]
        "L2" => Some(run_meta::<L2>(entry, meta)),
        #[cfg(not(skip = "L3"))]
        "L3" => Some(run_meta::<L3>(entry, meta)),
        #[cfg(not(skip = "L4"))]
        "L4" => Some(run_meta::<L4>(entry, meta)),
        #[cfg(not(skip = "L5"))]
        "L5" => Some(run_meta::<L5>(entry, meta)),
        #[cfg(not(skip = "RHS"))]
        "RHS" => Some(run_meta::<RHS>(entry, meta)),
        #[cfg(not(skip = "RBS"))]
        "RBS" => Some(run_meta::<RBS>(entry, meta)),
        #[cfg(not(skip = "RHI"))]
        "RHI" => Some(run_meta::<RHI>(entry, meta)),
        #[cfg(not(skip = "RBI"))]
        "RBI" => Some(run_meta::<RBI>(entry, meta)),
        #[cfg(not(skip = "RHP"))]
        "RHP" => Some(run_meta::<RHP>(entry, meta)),
        #[cfg(not(skip = "RHN"))]
        "RHN" => Some(run_meta::<RHN>(entry, meta)),
        #[cfg(not(skip = "RBN"))]
        "RBN" => Some(run_meta::<RBN>(entry, meta)),
        #[cfg(not(skip = "RHH"))]
        "RHH" => Some(run_meta::<RHH>(entry, meta)),
        #[cfg(not(skip = "RBH"))]
        "RBH" => Some(run_meta::<RBH>(entry, meta)),
        #[cfg(not(skip = "RHB"))]
        "RHB" => Some(run_meta::<RHB>(entry, meta)),
        #[cfg(not(skip = "RBB"))]
        "RBB" => Some(run_meta::<RBB>(entry, meta)),
        #[cfg(not(skip = "RHU"))]
        "RHU" => Some(run_meta::<RHU>(entry, meta)),
        #[cfg(not(skip = "RBU"))]
        "RBU" => Some(run_meta::<RBU>(entry, meta)),
        _ => None,
    }
}

// ------------------------------------------------------------------------------------------------
// element-level receivers

use darling::{ast, FromAttributes, FromDeriveInput, FromField, FromTypeParam, FromVariant};

fn ident_val(i: &syn::Ident) -> V {
    V::S(i.to_string())
}

#[cfg(not(skip = "FR1"))]
#[derive(FromField)]
#[darling(attributes(a))]
pub struct FR1 {
    ident: Option<syn::Ident>,
    ty: syn::Type,
    vis: syn::Visibility,
    p: Option<PM<3101>>,
    q: PM<3102>,
}
#[cfg(not(skip = "FR1"))]
impl Observe for FR1 {
    fn observe(&self) -> V {
        let _ = (&self.ty, &self.vis);
        V::Struct(
            "FR1".into(),
            vec![
                ("ident".into(), self.ident.as_ref().map(ident_val).unwrap_or(V::None)),
                ("p".into(), self.p.observe()),
                ("q".into(), self.q.observe()),
            ],
        )
    }
}

#[cfg(not(any(skip = "FR2", skip = "S1")))]
#[derive(FromField)]
#[darling(attributes(a, b), forward_attrs)]
pub struct FR2 {
    attrs: Vec<syn::Attribute>,
    #[darling(flatten)]
    rest: S1,
}
#[cfg(not(any(skip = "FR2", skip = "S1")))]
observe_struct!(FR2 { attrs, rest });

#[cfg(not(skip = "FR3"))]
#[derive(FromField)]
#[darling(attributes(a), forward_attrs(doc, keep))]
pub struct FR3 {
    #[darling(with = aw::<3300>)]
    attrs: AttrProbe,
    p: Option<PM<3301>>,
}
#[cfg(not(skip = "FR3"))]
observe_struct!(FR3 { attrs, p });

#[cfg(not(any(skip = "FR1", skip = "VR1")))]
#[derive(FromVariant)]
#[darling(attributes(a))]
pub struct VR1 {
    ident: syn::Ident,
    discriminant: Option<syn::Expr>,
    fields: ast::Fields<FR1>,
    p: Option<PM<3401>>,
}
#[cfg(not(any(skip = "FR1", skip = "VR1")))]
impl Observe for VR1 {
    fn observe(&self) -> V {
        let _ = &self.discriminant;
        V::Struct("VR1".into(), vec![("ident".into(), ident_val(&self.ident)), ("fields".into(), self.fields.observe()), ("p".into(), self.p.observe())])
    }
}

#[cfg(not(skip = "VR2"))]
#[derive(FromVariant)]
#[darling(attributes(a), supports(unit, newtype))]
pub struct VR2 {
    ident: syn::Ident,
    fields: ast::Fields<FP<3501>>,
    q: PM<3502>,
}
#[cfg(not(skip = "VR2"))]
impl Observe for VR2 {
    fn observe(&self) -> V {
        V::Struct("VR2".into(), vec![("ident".into(), ident_val(&self.ident)), ("fields".into(), self.fields.observe()), ("q".into(), self.q.observe())])
    }
}

#[cfg(not(skip = "TR1"))]
#[derive(FromTypeParam)]
#[darling(attributes(a))]
pub struct TR1 {
    ident: syn::Ident,
    bounds: Vec<syn::TypeParamBound>,
    default: Option<syn::Type>,
    p: Option<PM<3601>>,
}
#[cfg(not(skip = "TR1"))]
impl Observe for TR1 {
    fn observe(&self) -> V {
        let _ = (&self.bounds, &self.default);
        V::Struct("TR1".into(), vec![("ident".into(), ident_val(&self.ident)), ("p".into(), self.p.observe())])
    }
}

#[cfg(not(any(skip = "DI1", skip = "FR1", skip = "S1", skip = "TR1", skip = "VR1")))]
#[derive(FromDeriveInput)]
#[darling(attributes(a, b))]
pub struct DI1 {
    ident: syn::Ident,
    vis: syn::Visibility,
    generics: ast::Generics<ast::GenericParam<TR1>>,
    data: ast::Data<VR1, FR1>,
    s: S1,
    p: Option<PM<3701>>,
}
#[cfg(not(any(skip = "DI1", skip = "FR1", skip = "S1", skip = "TR1", skip = "VR1")))]
impl Observe for DI1 {
    fn observe(&self) -> V {
        let _ = &self.vis;
        V::Struct(
            "DI1".into(),
            vec![
                ("ident".into(), ident_val(&self.ident)),
                ("generics".into(), self.generics.observe()),
                ("data".into(), self.data.observe()),
                ("s".into(), self.s.observe()),
                ("p".into(), self.p.observe()),
            ],
        )
    }
}

#[cfg(not(any(skip = "DI2", skip = "FR2", skip = "S1", skip = "VR2")))]
#[derive(FromDeriveInput)]
#[darling(attributes(a), supports(struct_named, enum_unit, enum_newtype), forward_attrs)]
pub struct DI2 {
    attrs: Vec<syn::Attribute>,
    data: ast::Data<VR2, FR2>,
    q: PM<3801>,
}
#[cfg(not(any(skip = "DI2", skip = "FR2", skip = "S1", skip = "VR2")))]
observe_struct!(DI2 { attrs, data, q });

#[cfg(not(skip = "DI3"))]
#[derive(FromDeriveInput)]
#[darling(attributes(a), supports(any))]
pub struct DI3 {
    #[darling(with = dw::<3900>)]
    data: DataProbe,
    generics: GP<3901>,
    p: Option<PM<3902>>,
}
#[cfg(not(skip = "DI3"))]
observe_struct!(DI3 { data, generics, p });

#[cfg(not(skip = "DI4"))]
#[derive(FromDeriveInput)]
#[darling(attributes(a), from_ident)]
pub struct DI4 {
    ident: syn::Ident,
    p: PM<4001>,
    o: Option<PM<4002>>,
}
#[cfg(not(skip = "DI4"))]
impl From<syn::Ident> for DI4 {
    fn from(ident: syn::Ident) -> Self {
        from_ident_seam(4000);
        DI4 { ident, p: PM(Tok::FromIdent("p".into())), o: None }
    }
}
#[cfg(not(skip = "DI4"))]
impl Observe for DI4 {
    fn observe(&self) -> V {
        V::Struct("DI4".into(), vec![("ident".into(), ident_val(&self.ident)), ("p".into(), self.p.observe()), ("o".into(), self.o.observe())])
    }
}

#[cfg(not(any(skip = "DI1", skip = "DI5", skip = "FR1", skip = "S1", skip = "TR1", skip = "VR1")))]
#[derive(FromDeriveInput)]
pub struct DI5(DI1);
#[cfg(not(any(skip = "DI1", skip = "DI5", skip = "FR1", skip = "S1", skip = "TR1", skip = "VR1")))]
impl Observe for DI5 {
    fn observe(&self) -> V {
        self.0.observe()
    }
}

#[cfg(not(skip = "DI6"))]
#[derive(FromDeriveInput)]
#[darling(attributes(a), supports(struct_tuple))]
pub struct DI6 {
    data: ast::Data<(), FP<4201>>,
    p: Option<PM<4202>>,
}
#[cfg(not(skip = "DI6"))]
observe_struct!(DI6 { data, p });

#[cfg(not(any(skip = "AT1", skip = "S9")))]
#[derive(FromAttributes)]
#[darling(attributes(a, b))]
pub struct AT1 {
    p: PM<4301>,
    #[darling(multiple)]
    m: Vec<PM<4302>>,
    #[darling(flatten)]
    rest: S9,
}
#[cfg(not(any(skip = "AT1", skip = "S9")))]
observe_struct!(AT1 { p, m, rest });

#[cfg(not(any(skip = "AT2", skip = "E1", skip = "Rec")))]
#[derive(FromAttributes)]
#[darling(attributes(a), forward_attrs(doc))]
pub struct AT2 {
    attrs: Vec<syn::Attribute>,
    e: Option<E1>,
}
#[cfg(not(any(skip = "AT2", skip = "E1", skip = "Rec")))]
observe_struct!(AT2 { attrs, e });

/// forward_attrs with an explicitly empty list, no `attributes(..)`
#[cfg(not(skip = "FR4"))]
#[derive(FromField)]
#[darling(forward_attrs())]
pub struct FR4 {
    attrs: Vec<syn::Attribute>,
}
#[cfg(not(skip = "FR4"))]
observe_struct!(FR4 { attrs });

/// forward_attrs with an explicitly empty list next to `attributes(..)`
#[cfg(not(skip = "DI7"))]
#[derive(FromDeriveInput)]
#[darling(attributes(a), forward_attrs())]
pub struct DI7 {
    attrs: Vec<syn::Attribute>,
    p: Option<PM<4401>>,
}
#[cfg(not(skip = "DI7"))]
observe_struct!(DI7 { attrs, p });

#[cfg(not(skip = "FR5"))]
fn fr5_then(v: FR5) -> darling::Result<FR5> {
    cthen::<4510, FR5>(v)
}

#[cfg(not(skip = "FR5"))]
#[derive(FromField)]
#[darling(attributes(a), from_ident, and_then = fr5_then, allow_unknown_fields)]
pub struct FR5 {
    ident: Option<syn::Ident>,
    p: PM<4501>,
    o: Option<PM<4502>>,
}
#[cfg(not(skip = "FR5"))]
impl From<Option<syn::Ident>> for FR5 {
    fn from(ident: Option<syn::Ident>) -> Self {
        from_ident_seam(4500);
        FR5 { ident, p: PM(Tok::FromIdent("p".into())), o: None }
    }
}
#[cfg(not(skip = "FR5"))]
impl Observe for FR5 {
    fn observe(&self) -> V {
        V::Struct("FR5".into(), vec![("ident".into(), self.ident.as_ref().map(ident_val).unwrap_or(V::None)), ("p".into(), self.p.observe()), ("o".into(), self.o.observe())])
    }
}

#[cfg(not(skip = "VR3"))]
#[derive(FromVariant)]
#[darling(attributes(a), from_ident)]
pub struct VR3 {
    ident: syn::Ident,
    fields: ast::Fields<FP<4603>>,
    p: PM<4601>,
    o: Option<PM<4602>>,
}
#[cfg(not(skip = "VR3"))]
impl From<syn::Ident> for VR3 {
    fn from(ident: syn::Ident) -> Self {
        from_ident_seam(4600);
        VR3 { ident, fields: ast::Fields::new(ast::Style::Unit, vec![]), p: PM(Tok::FromIdent("p".into())), o: None }
    }
}
#[cfg(not(skip = "VR3"))]
impl Observe for VR3 {
    fn observe(&self) -> V {
        V::Struct(
            "VR3".into(),
            vec![("ident".into(), ident_val(&self.ident)), ("fields".into(), self.fields.observe()), ("p".into(), self.p.observe()), ("o".into(), self.o.observe())],
        )
    }
}

#[cfg(not(skip = "TR2"))]
fn tr2_map(v: TR2) -> TR2 {
    cmap::<4710, TR2>(v)
}

#[cfg(not(skip = "TR2"))]
#[derive(FromTypeParam)]
#[darling(attributes(a), default, map = tr2_map)]
pub struct TR2 {
    ident: syn::Ident,
    p: PM<4701>,
    o: Option<PM<4702>>,
}
#[cfg(not(skip = "TR2"))]
impl Default for TR2 {
    fn default() -> Self {
        container_default_seam(4700);
        TR2 { ident: syn::Ident::new("unset", proc_macro2::Span::call_site()), p: Default::default(), o: Default::default() }
    }
}
#[cfg(not(skip = "TR2"))]
impl Observe for TR2 {
    fn observe(&self) -> V {
        V::Struct("TR2".into(), vec![("ident".into(), ident_val(&self.ident)), ("p".into(), self.p.observe()), ("o".into(), self.o.observe())])
    }
}

#[cfg(not(any(skip = "DI8", skip = "FR5", skip = "TR2", skip = "VR3")))]
fn di8_then(v: DI8) -> darling::Result<DI8> {
    cthen::<4810, DI8>(v)
}

#[cfg(not(any(skip = "DI8", skip = "FR5", skip = "TR2", skip = "VR3")))]
#[derive(FromDeriveInput)]
#[darling(attributes(a), and_then = di8_then, allow_unknown_fields)]
pub struct DI8 {
    ident: syn::Ident,
    generics: ast::Generics<ast::GenericParam<TR2>>,
    data: ast::Data<VR3, FR5>,
    p: Option<PM<4801>>,
    #[darling(multiple)]
    m: Vec<PM<4802>>,
}
#[cfg(not(any(skip = "DI8", skip = "FR5", skip = "TR2", skip = "VR3")))]
impl Observe for DI8 {
    fn observe(&self) -> V {
        V::Struct(
            "DI8".into(),
            vec![
                ("ident".into(), ident_val(&self.ident)),
                ("generics".into(), self.generics.observe()),
                ("data".into(), self.data.observe()),
                ("p".into(), self.p.observe()),
                ("m".into(), self.m.observe()),
            ],
        )
    }
}

#[cfg(not(skip = "VR4"))]
#[derive(FromVariant)]
#[darling(attributes(a), forward_attrs)]
pub struct VR4 {
    ident: syn::Ident,
    discriminant: Option<syn::Expr>,
    attrs: Vec<syn::Attribute>,
    p: Option<PM<4901>>,
}
#[cfg(not(skip = "VR4"))]
impl Observe for VR4 {
    fn observe(&self) -> V {
        let _ = &self.discriminant;
        V::Struct("VR4".into(), vec![("ident".into(), ident_val(&self.ident)), ("attrs".into(), self.attrs.observe()), ("p".into(), self.p.observe())])
    }
}

#[cfg(not(skip = "TR3"))]
#[derive(FromTypeParam)]
#[darling(attributes(a), forward_attrs(doc, keep))]
pub struct TR3 {
    ident: syn::Ident,
    #[darling(with = aw::<4950>)]
    attrs: AttrProbe,
    q: PM<4951>,
}
#[cfg(not(skip = "TR3"))]
impl Observe for TR3 {
    fn observe(&self) -> V {
        V::Struct("TR3".into(), vec![("ident".into(), ident_val(&self.ident)), ("attrs".into(), self.attrs.observe()), ("q".into(), self.q.observe())])
    }
}

#[cfg(not(skip = "S1"))]
fn di9_s1() -> S1 {
    S1 { a: PM(Tok::FromIdent("a".into())), b: None, c: PM(Tok::FromIdent("c".into())), d: PM(Tok::FromIdent("d".into())) }
}

// from_ident + allow_unknown_fields + flatten + supports sets + data with + forwarded attrs with
#[cfg(not(any(skip = "DI9", skip = "S1")))]
#[derive(FromDeriveInput)]
#[darling(attributes(a), from_ident, allow_unknown_fields, supports(struct_any, enum_any), forward_attrs(doc))]
pub struct DI9 {
    ident: syn::Ident,
    #[darling(with = aw::<5400>)]
    attrs: AttrProbe,
    #[darling(with = dw::<5401>)]
    data: DataProbe,
    #[darling(flatten)]
    rest: S1,
    #[darling(multiple, default = pdefv::<5402>)]
    m: Vec<PM<5402>>,
    #[darling(with = pw::<5403>, and_then = pthen::<5403>)]
    w: PM<5403>,
}
#[cfg(not(any(skip = "DI9", skip = "S1")))]
impl From<syn::Ident> for DI9 {
    fn from(ident: syn::Ident) -> Self {
        from_ident_seam(5410);
        DI9 { ident, attrs: AttrProbe(0), data: DataProbe, rest: di9_s1(), m: vec![], w: PM(Tok::FromIdent("w".into())) }
    }
}
#[cfg(not(any(skip = "DI9", skip = "S1")))]
impl Observe for DI9 {
    fn observe(&self) -> V {
        V::Struct(
            "DI9".into(),
            vec![
                ("ident".into(), ident_val(&self.ident)),
                ("attrs".into(), self.attrs.observe()),
                ("data".into(), self.data.observe()),
                ("rest".into(), self.rest.observe()),
                ("m".into(), self.m.observe()),
                ("w".into(), self.w.observe()),
            ],
        )
    }
}

#[cfg(not(any(skip = "FR1", skip = "VR5")))]
fn vr5_map(v: VR5) -> VR5 {
    cmap::<5510, VR5>(v)
}

// container default + map + forwarded attrs with, on a variant receiver
#[cfg(not(any(skip = "FR1", skip = "VR5")))]
#[derive(FromVariant)]
#[darling(attributes(a), forward_attrs(doc), map = vr5_map, default)]
pub struct VR5 {
    ident: syn::Ident,
    #[darling(with = aw::<5500>)]
    attrs: AttrProbe,
    fields: ast::Fields<FR1>,
    p: PM<5501>,
    #[darling(multiple)]
    m: Vec<PM<5502>>,
}
#[cfg(not(any(skip = "FR1", skip = "VR5")))]
impl Default for VR5 {
    fn default() -> Self {
        container_default_seam(5520);
        VR5 {
            ident: syn::Ident::new("unset", proc_macro2::Span::call_site()),
            attrs: AttrProbe(0),
            fields: ast::Fields::new(ast::Style::Unit, vec![]),
            p: Default::default(),
            m: Default::default(),
        }
    }
}
#[cfg(not(any(skip = "FR1", skip = "VR5")))]
impl Observe for VR5 {
    fn observe(&self) -> V {
        V::Struct(
            "VR5".into(),
            vec![
                ("ident".into(), ident_val(&self.ident)),
                ("attrs".into(), self.attrs.observe()),
                ("fields".into(), self.fields.observe()),
                ("p".into(), self.p.observe()),
                ("m".into(), self.m.observe()),
            ],
        )
    }
}

#[cfg(not(skip = "AT3"))]
fn at3_then(v: AT3) -> darling::Result<AT3> {
    cthen::<5610, AT3>(v)
}

#[cfg(not(skip = "AT3"))]
#[derive(FromAttributes)]
#[darling(attributes(a), and_then = at3_then, allow_unknown_fields, default)]
pub struct AT3 {
    p: PM<5601>,
    #[darling(multiple, with = pw::<5602>)]
    mw: Vec<PM<5602>>,
    #[darling(default = pdef::<5603>, and_then = pthen::<5603>)]
    t: PM<5603>,
}
#[cfg(not(skip = "AT3"))]
observe_struct!(AT3 { p, mw, t });
#[cfg(not(skip = "AT3"))]
impl Default for AT3 {
    fn default() -> Self {
        container_default_seam(5620);
        AT3 { p: Default::default(), mw: Default::default(), t: Default::default() }
    }
}

#[cfg(not(skip = "FR6"))]
fn fr6_map(v: FR6) -> FR6 {
    cmap::<5710, FR6>(v)
}

#[cfg(not(skip = "FR6"))]
#[derive(FromField)]
#[darling(attributes(a), default, map = fr6_map)]
pub struct FR6 {
    ident: Option<syn::Ident>,
    p: PM<5701>,
    #[darling(and_then = pthen::<5702>, default = pdef::<5702>)]
    t: PM<5702>,
    #[darling(skip)]
    sk: PM<5703>,
}
#[cfg(not(skip = "FR6"))]
impl Default for FR6 {
    fn default() -> Self {
        container_default_seam(5720);
        FR6 { ident: None, p: Default::default(), t: Default::default(), sk: Default::default() }
    }
}
#[cfg(not(skip = "FR6"))]
impl Observe for FR6 {
    fn observe(&self) -> V {
        V::Struct(
            "FR6".into(),
            vec![
                ("ident".into(), self.ident.as_ref().map(ident_val).unwrap_or(V::None)),
                ("p".into(), self.p.observe()),
                ("t".into(), self.t.observe()),
                ("sk".into(), self.sk.observe()),
            ],
        )
    }
}

#[cfg(not(any(skip = "AT1", skip = "AT4", skip = "S9")))]
#[derive(FromAttributes)]
pub struct AT4(AT1);
#[cfg(not(any(skip = "AT1", skip = "AT4", skip = "S9")))]
impl Observe for AT4 {
    fn observe(&self) -> V {
        self.0.observe()
    }
}

pub enum ElemInput<'a> {
    DeriveInput(&'a syn::DeriveInput),
    Field(&'a syn::Field),
    Variant(&'a syn::Variant),
    TypeParam(&'a syn::TypeParam),
    Attributes(&'a [syn::Attribute]),
}

/// Run the element-level entry point of the named receiver. `None` = unknown receiver / wrong kind.
pub fn run_elem_receiver(name: &str, input: &ElemInput) -> Option<Result<V, darling::Error>> {
    fn ob<T: Observe>(r: darling::Result<T>) -> Result<V, darling::Error> {
        r.map(|v| v.observe())
    }
    if let Some(r) = crate::gen_corpus::run_gen_elem(name, input) {
        return Some(r);
    }
    Some(match (name, input) {
        #[cfg(not(skip = "FR1"))]
        ("FR1", ElemInput::Field(f)) => ob(FR1::from_field(f)),
        #[cfg(not(any(skip = "FR2", skip = "S1")))]
        ("FR2", ElemInput::Field(f)) => ob(FR2::from_field(f)),
        #[cfg(not(skip = "FR3"))]
        ("FR3", ElemInput::Field(f)) => ob(FR3::from_field(f)),
        #[cfg(not(skip = "FR4"))]
        ("FR4", ElemInput::Field(f)) => ob(FR4::from_field(f)),
        #[cfg(not(skip = "FR5"))]
        ("FR5", ElemInput::Field(f)) => ob(FR5::from_field(f)),
        #[cfg(not(skip = "VR3"))]
        ("VR3", ElemInput::Variant(v)) => ob(VR3::from_variant(v)),
        #[cfg(not(skip = "VR4"))]
        ("VR4", ElemInput::Variant(v)) => ob(VR4::from_variant(v)),
        #[cfg(not(any(skip = "FR1", skip = "VR5")))]
        ("VR5", ElemInput::Variant(v)) => ob(VR5::from_variant(v)),
        #[cfg(not(skip = "FR6"))]
        ("FR6", ElemInput::Field(f)) => ob(FR6::from_field(f)),
        #[cfg(not(any(skip = "DI9", skip = "S1")))]
        ("DI9", ElemInput::DeriveInput(d)) => ob(DI9::from_derive_input(d)),
        #[cfg(not(skip = "AT3"))]
        ("AT3", ElemInput::Attributes(a)) => ob(AT3::from_attributes(a)),
        #[cfg(not(any(skip = "AT1", skip = "AT4", skip = "S9")))]
        ("AT4", ElemInput::Attributes(a)) => ob(AT4::from_attributes(a)),
        #[cfg(not(skip = "TR3"))]
        ("TR3", ElemInput::TypeParam(t)) => ob(TR3::from_type_param(t)),
        #[cfg(not(skip = "TR2"))]
        ("TR2", ElemInput::TypeParam(t)) => ob(TR2::from_type_param(t)),
        #[cfg(not(any(skip = "DI8", skip = "FR5", skip = "TR2", skip = "VR3")))]
        ("DI8", ElemInput::DeriveInput(d)) => ob(DI8::from_derive_input(d)),
        #[cfg(not(skip = "DI7"))]
        ("DI7", ElemInput::DeriveInput(d)) => ob(DI7::from_derive_input(d)),
        #[cfg(not(any(skip = "FR1", skip = "VR1")))]
        ("VR1", ElemInput::Variant(v)) => ob(VR1::from_variant(v)),
        #[cfg(not(skip = "VR2"))]
        ("VR2", ElemInput::Variant(v)) => ob(VR2::from_variant(v)),
        #[cfg(not(skip = "TR1"))]
        ("TR1", ElemInput::TypeParam(t)) => ob(TR1::from_type_param(t)),
        #[cfg(not(any(skip = "DI1", skip = "FR1", skip = "S1", skip = "TR1", skip = "VR1")))]
        ("DI1", ElemInput::DeriveInput(d)) => ob(DI1::from_derive_input(d)),
        #[cfg(not(any(skip = "DI2", skip = "FR2", skip = "S1", skip = "VR2")))]
        ("DI2", ElemInput::DeriveInput(d)) => ob(DI2::from_derive_input(d)),
        #[cfg(not(skip = "DI3"))]
        ("DI3", ElemInput::DeriveInput(d)) => ob(DI3::from_derive_input(d)),
        #[cfg(not(skip = "DI4"))]
        ("DI4", ElemInput::DeriveInput(d)) => ob(DI4::from_derive_input(d)),
        #[cfg(not(any(skip = "DI1", skip = "DI5", skip = "FR1", skip = "S1", skip = "TR1", skip = "VR1")))]
        ("DI5", ElemInput::DeriveInput(d)) => ob(DI5::from_derive_input(d)),
        #[cfg(not(skip = "DI6"))]
        ("DI6", ElemInput::DeriveInput(d)) => ob(DI6::from_derive_input(d)),
        #[cfg(not(any(skip = "AT1", skip = "S9")))]
        ("AT1", ElemInput::Attributes(a)) => ob(AT1::from_attributes(a)),
        #[cfg(not(any(skip = "AT2", skip = "E1", skip = "Rec")))]
        ("AT2", ElemInput::Attributes(a)) => ob(AT2::from_attributes(a)),
        _ => return None,
    })
}
