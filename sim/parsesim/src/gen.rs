//! Workload and fault generator of simulator B. The PRNG is used only here, to produce an explicit
//! `Scenario`; everything downstream interprets the scenario.
//!
//! Swarm style: per run the receiver, entry point, sizes, which mistake kinds are allowed and how
//! many, which fault kinds are enabled and at what rate are all drawn afresh.

use simcore::Rng;

use crate::input::*;
use crate::run::{Entry, Scenario};
use crate::schema::*;
use crate::world::{Env, Fault, Key, SpanSel};

pub struct GenCfg {
    pub mode: &'static str,
    pub p_present: u32,
    pub mistakes_left: usize,
    pub allow: Allow,
    pub max_depth: usize,
}

#[derive(Clone, Copy)]
pub struct Allow {
    pub unknown: bool,
    pub repeat: bool,
    pub literal: bool,
    pub bad_value: bool,
    pub arity: bool,
    pub malformed: bool,
}

pub struct Gen<'r> {
    pub rng: &'r mut Rng,
    pub cfg: GenCfg,
    next_id: u32,
    /// (item id, can carry an item-keyed fault, has post-processing)
    pub probe_items: Vec<(u32, bool)>,
    pub all_items: Vec<u32>,
    pub sites: Vec<(u32, &'static str, bool)>, // (site, hook, fallible)
    pub none_sites: Vec<u32>,
    recvs: &'static std::collections::BTreeMap<&'static str, RecvDesc>,
}

const KEY_POOL: [&str; 11] = ["k1", "k2", "k3", "kk", "k1", "x::y", "r#k1", "r#type", "crate", "self", "\u{e9}"];

impl<'r> Gen<'r> {
    fn id(&mut self) -> u32 {
        self.next_id += 1;
        self.all_items.push(self.next_id);
        self.next_id
    }

    fn mistake(&mut self, allowed: bool, pct: u32) -> bool {
        if allowed && self.cfg.mistakes_left > 0 && self.rng.pct(pct) {
            self.cfg.mistakes_left -= 1;
            true
        } else {
            false
        }
    }

    fn item(&mut self, name: &str, form: Form) -> Item {
        let id = self.id();
        // a few lists are written with brackets or braces: the same meta list to syn and to darling
        let delim = if matches!(form, Form::List(_) | Form::BadList(_)) && self.rng.pct(4) { self.rng.range(1, 2) as u8 } else { 0 };
        Item { id, name: name.to_string(), form, r_item: ZERO, r_path: ZERO, r_value: None, delim }
    }

    fn junk_nested(&mut self) -> Vec<Nested> {
        let n = self.rng.below(3);
        (0..n)
            .map(|i| {
                let v = Value::Int(format!("{}", i));
                Nested::Item(self.item(["p", "q", "r"][i % 3], Form::NV(v)))
            })
            .collect()
    }

    fn bad_list(&mut self) -> Form {
        Form::BadList(self.rng.pick(&["b c", "= 3", "1 2", ", ,", "x = ", "a b = 1", "+", "type = 1", "a = 1, fn", "true = false", "a, type(x)", "a::<T> = 1", "a = 1; b = 2", "a = 1 b = 2"]).to_string())
    }

    /// An item named `name` meant for a value of type `ty`.
    fn item_for(&mut self, name: &str, ty: &Ty, depth: usize, post: bool) -> Item {
        match ty {
            Ty::PM(site) => {
                self.none_sites.push(*site);
                self.sites.push((*site, "Default", false));
                self.sites.push((*site, "default_fn", false));
                let form = match self.rng.below(10) {
                    0..=1 => Form::Word,
                    2..=5 => Form::NV(Value::Int(format!("{}", self.next_id + 1))),
                    6 => Form::NV(Value::Str("v".into())),
                    7 => Form::NV(Value::PathExpr("some::path".into())),
                    8 => Form::List(self.junk_nested()),
                    _ => {
                        if self.cfg.allow.malformed && self.rng.pct(30) {
                            self.bad_list()
                        } else {
                            Form::NV(Value::Bool(true))
                        }
                    }
                };
                let it = self.item(name, form);
                self.probe_items.push((it.id, post));
                it
            }
            Ty::PH(site) | Ty::OverridePH(site) => {
                for h in ["from_word", "from_list", "from_bool", "from_char"] {
                    self.sites.push((*site, h, true));
                }
                let id_next = self.next_id + 1;
                let form = if self.mistake(self.cfg.allow.bad_value, 12) {
                    if self.rng.pct(50) {
                        Form::NV(Value::Int("7".into()))
                    } else {
                        Form::NV(Value::PathExpr("a::b".into()))
                    }
                } else {
                    match self.rng.below(10) {
                        0 => Form::Word,
                        1..=5 => Form::NV(Value::Str(format!("s{}", id_next))),
                        6 => Form::NV(Value::Bool(self.rng.pct(50))),
                        7 => Form::NV(Value::Char('c')),
                        8 => Form::List(self.junk_nested_lits()),
                        _ => {
                            if self.cfg.allow.malformed && self.rng.pct(30) {
                                self.bad_list()
                            } else {
                                Form::NV(Value::Str(format!("s{}", id_next)))
                            }
                        }
                    }
                };
                let it = self.item(name, form);
                if matches!(&it.form, Form::NV(Value::Str(_))) {
                    self.probe_items.push((it.id, false));
                }
                it
            }
            Ty::Opt(t) | Ty::Boxed(t) | Ty::DResult(t) | Ty::MResult(t) | Ty::Spanned(t) | Ty::WithOrig(t) => self.item_for(name, t, depth, post),
            Ty::Recv(rn) => {
                let d = self.recvs.get(rn).expect("schema").clone();
                self.recv_item(name, &d, depth)
            }
            Ty::Map { key, val, .. } => {
                if self.mistake(self.cfg.allow.bad_value, 5) {
                    return self.item(name, Form::NV(Value::Str("notamap".into())));
                }
                let items = self.map_items(key, val, depth);
                self.item(name, Form::List(items))
            }
            Ty::U8 => {
                let form = if self.mistake(self.cfg.allow.bad_value, 15) {
                    match self.rng.below(8) {
                        7 => Form::NV(Value::PathExpr(self.rng.pick(&NON_LITERAL_EXPRS).to_string())),
                        0 => Form::NV(Value::Int("256".into())),
                        1 => Form::NV(Value::Int("99999999999999999999999999".into())),
                        2 => Form::NV(Value::Str("x1".into())),
                        3 => Form::NV(Value::Bool(true)),
                        // quoted numbers mean the string as it stands: other notations, out of range or not, are rejected
                        4 => Form::NV(Value::Str(self.rng.pick(&["0x1ff", "1_000", "0b1_0000_0000", "300u8", "-1", "256", "0x10", "7u8", " 7", ""]).to_string())),
                        5 => Form::NV(Value::Int(self.rng.pick(&["0x1ff", "1_000", "0b1_0000_0000", "300u8", "300u16"]).to_string())),
                        _ => Form::Word,
                    }
                } else if self.rng.pct(70) {
                    Form::NV(Value::Int(format!("{}", self.rng.below(256))))
                } else {
                    Form::NV(Value::Str(format!("{}", self.rng.below(256))))
                };
                self.item(name, form)
            }
            Ty::Bool => {
                let form = if self.mistake(self.cfg.allow.bad_value, 15) {
                    match self.rng.below(4) {
                        3 => Form::NV(Value::PathExpr(self.rng.pick(&NON_LITERAL_EXPRS).to_string())),
                        0 => Form::NV(Value::Str("yes".into())),
                        1 => Form::NV(Value::Int("1".into())),
                        _ => Form::List(vec![]),
                    }
                } else {
                    match self.rng.below(3) {
                        0 => Form::Word,
                        1 => Form::NV(Value::Bool(self.rng.pct(50))),
                        _ => Form::NV(Value::Str(if self.rng.pct(50) { "true" } else { "false" }.into())),
                    }
                };
                self.item(name, form)
            }
            Ty::Str => {
                let form = if self.mistake(self.cfg.allow.bad_value, 15) {
                    match self.rng.below(3) {
                        0 => Form::NV(Value::Int("3".into())),
                        1 => Form::NV(Value::PathExpr(self.rng.pick(&NON_LITERAL_EXPRS).to_string())),
                        _ => Form::Word,
                    }
                } else {
                    Form::NV(Value::Str(self.rng.pick(&["", "hello", "a b", "s12"]).to_string()))
                };
                self.item(name, form)
            }
            Ty::PV(_) | Ty::PE(_) | Ty::OverridePV(_) => {
                let is_pe = matches!(ty, Ty::PE(_));
                let form = if self.mistake(self.cfg.allow.bad_value, 10) {
                    match self.rng.below(3) {
                        0 => Form::Word,
                        1 => Form::List(self.junk_nested()),
                        _ if is_pe => Form::Word,
                        _ => Form::NV(Value::PathExpr("a::b".into())),
                    }
                } else {
                    match self.rng.below(6) {
                        0 => Form::NV(Value::Int(format!("{}", self.next_id + 1))),
                        1 => Form::NV(Value::Str("v".into())),
                        2 => Form::NV(Value::Bool(true)),
                        3 => Form::NV(Value::Char('k')),
                        4 if is_pe => Form::NV(Value::PathExpr("x::y".into())),
                        4 if matches!(ty, Ty::OverridePV(_)) => Form::Word,
                        _ => Form::NV(Value::Int("7".into())),
                    }
                };
                let it = self.item(name, form);
                if matches!(&it.form, Form::NV(_)) {
                    self.probe_items.push((it.id, false));
                }
                it
            }
            Ty::Flag => {
                let form = if self.mistake(self.cfg.allow.bad_value, 15) {
                    match self.rng.below(3) {
                        0 => Form::NV(Value::Bool(true)),
                        1 => Form::List(vec![]),
                        _ => Form::NV(Value::Str("yes".into())),
                    }
                } else {
                    Form::Word
                };
                self.item(name, form)
            }
            Ty::PathList => {
                if self.mistake(self.cfg.allow.bad_value, 8) {
                    let f = if self.rng.pct(50) { Form::Word } else { Form::NV(Value::Str("a, b".into())) };
                    return self.item(name, f);
                }
                let n = self.rng.below(4);
                let mut v = Vec::new();
                for i in 0..n {
                    let nm = ["a", "b::c", "::d", "e"][i % 4];
                    if self.mistake(self.cfg.allow.bad_value, 8) {
                        if self.rng.pct(50) {
                            v.push(Nested::Lit { text: "\"lit\"".into(), range: ZERO });
                        } else {
                            let it = self.item(nm, Form::NV(Value::Int("1".into())));
                            v.push(Nested::Item(it));
                        }
                    } else {
                        let it = self.item(nm, Form::Word);
                        v.push(Nested::Item(it));
                    }
                }
                self.item(name, Form::List(v))
            }
            Ty::Any(_) => {
                let form = self.wild_form(depth);
                self.item(name, form)
            }
            Ty::Char => {
                let form = if self.mistake(self.cfg.allow.bad_value, 15) {
                    match self.rng.below(4) {
                        0 => Form::NV(Value::Str("ab".into())),
                        1 => Form::NV(Value::Str("".into())),
                        2 => Form::NV(Value::PathExpr(self.rng.pick(&NON_LITERAL_EXPRS).to_string())),
                        _ => Form::NV(Value::Bool(false)),
                    }
                } else if self.rng.pct(50) {
                    Form::NV(Value::Char('z'))
                } else {
                    Form::NV(Value::Str("q".into()))
                };
                self.item(name, form)
            }
        }
    }

    /// Any meta form with any value: for conversions judged on totality only.
    fn wild_form(&mut self, depth: usize) -> Form {
        const INTS: [&str; 36] = [
            "0", "1", "127", "128", "255", "256", "32768", "65535", "65536", "2147483648", "4294967295", "4294967296", "9223372036854775808",
            "18446744073709551615", "18446744073709551616", "170141183460469231731687303715884105728", "340282366920938463463374607431768211455",
            "340282366920938463463374607431768211456", "999999999999999999999999999999999999999999999999999999999999", "0xFF", "0xffff_ffff_ffff_ffff_ffff",
            "0o777", "0b1010_1010", "1u8", "300u8", "1i128", "1_000_000", "7usize", "00000000000000000000000000000000000000001", "0x0",
            // code points: the surrogate gap, the last scalar value and the first non-value
            "0xD800", "55296", "57343", "0xDFFF", "0x10FFFF", "0x110000",
        ];
        const FLOATS: [&str; 10] = ["1.5", "0.0", "1e10", "1e400", "3.5e38f32", "1f64", "1e-400", "123456789012345678901234567890.0", "1.0e0", "2.5f32"];
        const STRS: [&str; 86] = [
            "", "0", "-1", "-128", "-129", "255", "256", "1e400", "NaN", "inf", "-inf", "1.5", "abc", "a::b", "::a", "Vec<u8>", "pub(crate)", "pub", "where T: Clone",
            "T: Clone, U: Copy", "[1, 2]", "[\"a\", \"b\"]", "[1, x]", "1..2", "fn()", "|x| x", "true", "false", "x", "xy", " ", "a b", "1 2", "snake_case", "PascalCase",
            "r#type", "self", "a,b,c", "a, b,", "é", "0x1ff", "0b1_0000_0000", "1_000", "300u8", "0x10", "-0x81", "+5", "[u8; 4]", "fn(u8) -> u8", "impl Clone", "_", "m!()", "!", "(u8)",
            "*const u8", "&'a str", "[u8]", "dyn Clone + Send", "(u8, u16)", "T: Clone", "[0x2]", "[0.5, 0x2]", "b'a'", "a + b; c",
            // contents that do not even tokenize
            "Vec<(u8, u16>", "foo(1, 2", "[1, 2", "T: Fn(u8", "std\\\\mem", "'", "0x", "a )",
            // where std's alphabetic / alphanumeric / numeric classes and the identifier grammar (XID_Start / XID_Continue) disagree,
            // case mappings that change length, combining marks, joiners
            "x\u{b2}", "\u{24d0}bc", "n\u{bd}", "\u{2460}", "\u{301}a", "a\u{301}", "\u{1c5}", "\u{fb01}", "\u{65e5}\u{672c}", "a\u{200d}b", "\u{2118}", "a\u{b7}b", "\u{130}", "\u{df}",
        ];
        const EXPRS: [&str; 64] = [
            "[1, 2, 3]", "[\"a\", \"b\"]", "[1, \"a\"]", "[]", "[300, 1]", "[-1]", "[1u8, 2u64]", "a::b", "::a", "foo(1)", "1..2", "..", "(1)", "{ 1 }", "|x| x", "&x", "x as u8", "1 + 2",
            "-1", "-129", "!true", "a.b", "a[0]", "if a { 1 } else { 2 }", "Self", "self", "crate::x", "<T as U>::V", "b'a'", "b\"bytes\"", "r#\"raw\"#", "'a'", "'\\n'", "x!()", "0x10", "0xff_u8", "-0x10", "[0.5, 0x2]", "[b'a', b'b']", "['a', 'b']", "[true, false]", "1.5e3", "0o17", "|a| a + 1",
            "path::to::f", "[b\"x\", b\"y\"]", "[1.0, 2]", "2", "-128", "-32768", "-2147483648", "-9223372036854775808", "-170141183460469231731687303715884105728", "-127", "-1.5", "-0",
            "-255", "-256", "[0; 4]", "[0; 18446744073709551615]", "[7; 4611686018427387904]", "[1; 0]", "[x; 2]", "[0u8; 3]",
        ];
        match self.rng.below(12) {
            0 => Form::Word,
            1 | 2 => Form::NV(Value::Raw(self.rng.pick(&INTS).to_string())),
            3 => Form::NV(Value::Raw(self.rng.pick(&FLOATS).to_string())),
            4 | 5 => Form::NV(Value::Str(self.rng.pick(&STRS).to_string())),
            6 => {
                if self.rng.pct(60) {
                    Form::NV(Value::Str(self.rng.pick(&STRS).to_string()))
                } else {
                    Form::NV(Value::Str(self.long_string()))
                }
            }
            7 | 8 => Form::NV(Value::Raw(self.rng.pick(&EXPRS).to_string())),
            9 => Form::NV(Value::Bool(self.rng.pct(50))),
            10 => {
                // a list: items, literals, nested lists, or token soup
                if self.cfg.allow.malformed && self.rng.pct(25) {
                    self.bad_list()
                } else {
                    let n = self.rng.below(4);
                    let mut v = Vec::new();
                    for i in 0..n {
                        if self.rng.pct(40) {
                            let text = match self.rng.below(4) {
                                0 => self.rng.pick(&INTS).to_string(),
                                1 => format!("\"{}\"", self.rng.pick(&STRS)),
                                2 => "true".to_string(),
                                _ => self.rng.pick(&FLOATS).to_string(),
                            };
                            v.push(Nested::Lit { text, range: ZERO });
                        } else {
                            let name = ["p", "q::r", "::s", "t"][i % 4];
                            let form = if depth < 3 && self.rng.pct(30) { self.wild_form(depth + 1) } else { Form::Word };
                            let it = self.item(name, form);
                            v.push(Nested::Item(it));
                        }
                    }
                    Form::List(v)
                }
            }
            _ => Form::NV(Value::Char(*self.rng.pick(&['a', 'Z', '0', ' ']))),
        }
    }

    /// A string of a chosen byte length (around the usual buffer / truncation thresholds) made of
    /// one- to four-byte characters, so that any byte offset may fall inside a character.
    fn long_string(&mut self) -> String {
        const UNITS: [&str; 12] = ["a", "b", " ", ":", "<", "1", "_", "\u{e9}", "\u{20ac}", "\u{1f600}", "::", ", "];
        let target = *self.rng.pick(&[1usize, 15, 16, 31, 32, 63, 64, 100, 119, 120, 121, 127, 128, 129, 255, 256, 257, 1000, 4096]) + self.rng.below(4);
        let mut out = String::new();
        // optionally a sensible prefix, so the text is "almost" valid syntax
        if self.rng.pct(40) {
            let prefix: &str = *self.rng.pick(&["a::b::", "Vec<", "where T: ", "[1, 2, ", "pub(", "|x| "]);
            out.push_str(prefix);
        }
        while out.len() < target {
            let u = *self.rng.pick(&UNITS);
            out.push_str(u);
        }
        out
    }

    fn junk_nested_lits(&mut self) -> Vec<Nested> {
        let n = self.rng.below(3);
        (0..n).map(|i| Nested::Lit { text: format!("{}", i + 1), range: ZERO }).collect()
    }

    fn map_items(&mut self, key: &KeyKind, val: &Ty, depth: usize) -> Vec<Nested> {
        // mostly short lists; sometimes up to the 12 the property speaks of, rarely far beyond
        let n = match self.rng.below(20) {
            0..=13 => self.rng.below(7),
            14..=18 => self.rng.range(7, 12),
            // far beyond, and now and then more than a hundred (mostly repeats: a hundred leaves and more)
            _ if self.rng.pct(3) => self.rng.range(100, 170),
            _ => self.rng.range(13, 40),
        };
        let pool = self.rng.range(1, KEY_POOL.len());
        let mut out = Vec::new();
        for _ in 0..n {
            if self.mistake(self.cfg.allow.literal, 8) {
                out.push(Nested::Lit { text: "\"lit\"".into(), range: ZERO });
                continue;
            }
            let mut k = KEY_POOL[self.rng.below(pool)].to_string();
            if *key != KeyKind::Ident && self.rng.pct(6) {
                k = format!("::{}", k);
            }
            let it = self.item_for(&k, val, depth + 1, false);
            out.push(Nested::Item(it));
        }
        out
    }

    fn recv_item(&mut self, name: &str, d: &RecvDesc, depth: usize) -> Item {
        if let Some(s) = d.from_word {
            self.sites.push((s, "container_from_word", true));
        }
        if let Some(s) = d.from_none {
            self.none_sites.push(s);
        }
        match &d.shape {
            Shape::Unit => {
                if self.mistake(self.cfg.allow.bad_value, 15) {
                    self.item(name, Form::NV(Value::Int("1".into())))
                } else {
                    self.item(name, Form::Word)
                }
            }
            Shape::Newtype(t) | Shape::Alias(t) => self.item_for(name, t, depth, false),
            Shape::Struct(fields) => {
                if self.mistake(self.cfg.allow.bad_value, 6) {
                    let form = match self.rng.below(3) {
                        0 => Form::Word,
                        1 => Form::NV(Value::Str("x".into())),
                        _ => Form::NV(Value::Int("5".into())),
                    };
                    return self.item(name, form);
                }
                if d.from_word.is_some() && self.rng.pct(25) {
                    return self.item(name, Form::Word);
                }
                if self.cfg.allow.malformed && self.rng.pct(3) {
                    let f = self.bad_list();
                    return self.item(name, f);
                }
                let items = self.struct_items(d, fields, d.allow_unknown, depth + 1);
                self.item(name, Form::List(items))
            }
            Shape::Enum(vs) => {
                let usable: Vec<&VariantDesc> = vs.iter().filter(|v| !v.skip).collect();
                if usable.is_empty() {
                    // an enum nobody can select: every form is a mistake of some kind
                    let form = match self.rng.below(4) {
                        0 => Form::Word,
                        1 => Form::NV(Value::Str("x".into())),
                        2 => Form::List(vec![]),
                        _ => {
                            let inner = self.item("anything", Form::Word);
                            Form::List(vec![Nested::Item(inner)])
                        }
                    };
                    return self.item(name, form);
                }
                let has_word = vs.iter().any(|v| v.word) || d.from_word.is_some();
                let r = self.rng.below(100);
                if has_word && r < 15 {
                    return self.item(name, Form::Word);
                }
                if self.mistake(self.cfg.allow.arity, 10) {
                    // zero or two nested items; a quarter of the surplus cases three to five
                    let items = if self.rng.pct(50) {
                        vec![]
                    } else {
                        let n = if self.rng.pct(25) { self.rng.range(3, 5) } else { 2 };
                        (0..n)
                            .map(|_| {
                                let i = self.rng.below(usable.len());
                                Nested::Item(self.variant_item(usable[i], depth + 1))
                            })
                            .collect()
                    };
                    return self.item(name, Form::List(items));
                }
                if self.mistake(self.cfg.allow.unknown, 8) {
                    let form = if self.rng.pct(50) {
                        // names no variant - also as an empty string, with a non-ASCII first character, in Rust spelling
                        Form::NV(Value::Str(self.rng.pick(&["no_such_variant", "no_such_variant", "", "\u{e9}mile", "NoSuchVariant", " ", "\u{20ac}"]).to_string()))
                    } else {
                        let inner = self.item("no_such_variant", Form::Word);
                        Form::List(vec![Nested::Item(inner)])
                    };
                    return self.item(name, form);
                }
                if self.mistake(self.cfg.allow.literal, 5) {
                    return self.item(name, Form::List(vec![Nested::Lit { text: "\"unit\"".into(), range: ZERO }]));
                }
                if self.mistake(self.cfg.allow.bad_value, 5) {
                    // a variant named without quotes is an expression, not a string: rejected
                    let v = usable[self.rng.below(usable.len())];
                    let text = if self.rng.pct(70) { v.name.to_string() } else { "no_such_variant".to_string() };
                    if syn::parse_str::<syn::Ident>(&text).is_ok() {
                        return self.item(name, Form::NV(Value::PathExpr(text)));
                    }
                }
                let v = usable[self.rng.below(usable.len())];
                if r < 45 {
                    // string form: unit variants accept it; others are mistakes (value rejected)
                    let ok = matches!(v.kind, VariantKind::Unit);
                    if ok || self.mistake(self.cfg.allow.bad_value, 30) {
                        return self.item(name, Form::NV(Value::Str(v.name.to_string())));
                    }
                }
                let inner = self.variant_item(v, depth + 1);
                self.item(name, Form::List(vec![Nested::Item(inner)]))
            }
        }
    }

    fn variant_item(&mut self, v: &VariantDesc, depth: usize) -> Item {
        match &v.kind {
            VariantKind::Unit => {
                if self.mistake(self.cfg.allow.bad_value, 10) {
                    self.item(v.name, Form::NV(Value::Int("1".into())))
                } else {
                    self.item(v.name, Form::Word)
                }
            }
            VariantKind::Newtype(t) => self.item_for(v.name, t, depth, false),
            VariantKind::Struct { fields, allow_unknown } => {
                if self.mistake(self.cfg.allow.bad_value, 8) {
                    return self.item(v.name, Form::Word);
                }
                if self.cfg.allow.malformed && self.rng.pct(4) {
                    let f = self.bad_list();
                    return self.item(v.name, f);
                }
                let d = recv("variant", Shape::Unit);
                let items = self.struct_items(&d, fields, *allow_unknown, depth);
                self.item(v.name, Form::List(items))
            }
        }
    }

    /// Items for a struct-like level (fields of a receiver or of a struct variant).
    pub fn struct_items(&mut self, d: &RecvDesc, fields: &[FieldDesc], allow_unknown: bool, depth: usize) -> Vec<Nested> {
        let mut out: Vec<Nested> = Vec::new();
        if let Some((Post::AndThen, s)) = d.container_post {
            self.sites.push((s, "container_and_then", true));
        }
        if let Some((Post::Map, s)) = d.container_post {
            self.sites.push((s, "container_map", false));
        }
        match d.container_default {
            Some(ContainerDefault::Trait(s)) | Some(ContainerDefault::Fn(s)) => self.sites.push((s, "container_default", false)),
            None => {}
        }
        let too_deep = depth > self.cfg.max_depth;
        for fd in fields {
            if fd.skip {
                if let Ty::PM(s) = fd.ty {
                    self.sites.push((s, "Default", false));
                    self.sites.push((s, "default_fn", false));
                }
                continue;
            }
            if fd.flatten {
                // the flatten member's own names, handed over by the outer loop
                fn peel(t: &Ty) -> &Ty {
                    match t {
                        Ty::DResult(b) | Ty::Boxed(b) => peel(b),
                        other => other,
                    }
                }
                match peel(&fd.ty) {
                    Ty::Recv(n) => {
                        let inner = self.recvs.get(n).expect("schema").clone();
                        if let Shape::Struct(ifields) = &inner.shape {
                            let items = self.struct_items(&inner, ifields, inner.allow_unknown, depth);
                            out.extend(items);
                        }
                    }
                    Ty::Map { key, val, .. } => {
                        let items = self.map_items(key, val, depth);
                        // keys that collide with outer field names would be claimed by the outer loop
                        out.extend(items);
                    }
                    _ => {}
                }
                continue;
            }
            let is_recursive = matches!(&fd.ty, Ty::Opt(b) if matches!(**b, Ty::Boxed(_)));
            let present = if too_deep && (is_recursive || matches!(fd.ty, Ty::Opt(_))) {
                false
            } else if is_recursive {
                self.rng.pct(if self.cfg.max_depth > 3 { 97 } else { 55 })
            } else {
                self.rng.pct(self.cfg.p_present)
            };
            let count = if fd.multiple {
                if present {
                    if self.rng.pct(1) {
                        self.rng.range(100, 140)
                    } else if self.rng.pct(5) {
                        self.rng.range(4, 20)
                    } else {
                        self.rng.range(1, 3)
                    }
                } else {
                    0
                }
            } else if present {
                1
            } else {
                0
            };
            for _ in 0..count {
                let post = fd.post != Post::None;
                let it = if fd.with {
                    // a `with` seam takes the item whatever its form
                    let form = match self.rng.below(3) {
                        0 => Form::Word,
                        1 => Form::NV(Value::Int(format!("{}", self.next_id + 1))),
                        _ => Form::List(self.junk_nested()),
                    };
                    let it = self.item(fd.name, form);
                    self.probe_items.push((it.id, post));
                    if let Ty::PM(s) = fd.ty {
                        self.sites.push((s, "Default", false));
                    }
                    it
                } else {
                    self.item_for(fd.name, &fd.ty, depth, post)
                };
                let mut it = it;
                if self.rng.pct(3) {
                    // `::name` is the same name to darling (a leading `::` is not part of it)
                    it.name = format!("::{}", it.name);
                }
                out.push(Nested::Item(it));
            }
            // repeated name
            if count == 1 && !fd.multiple && self.mistake(self.cfg.allow.repeat, 10) {
                let reps = self.rng.range(1, 2);
                for _ in 0..reps {
                    let it = self.item_for(fd.name, &fd.ty, depth, false);
                    out.push(Nested::Item(it));
                }
            }
        }
        // unknown names
        while self.mistake(self.cfg.allow.unknown && !fields.iter().any(|f| f.flatten && matches!(f.ty, Ty::Map { .. })), 10) {
            let mut base = self.rng.pick(&["zz", "qq", "nope", "aa", "longNam", "inne", "r#type", "r#a", "x::a", "::zz", "crate", "self", "\u{e9}t\u{e9}", "super::x", "Self"]).to_string();
            // a third of the time: a near miss of one of this level's own names (another case convention, a
            // stray or missing underscore, a typo) - which may well be a required field that is absent
            if !fields.is_empty() && !fields.iter().any(|f| f.flatten) && self.rng.pct(33) {
                let of = fields[self.rng.below(fields.len())].name;
                let how = self.rng.below(7);
                let cand = near_miss(of, how);
                if syn::parse_str::<syn::Ident>(&cand).is_ok() && !fields.iter().any(|f| f.name == cand || f.rust == cand) {
                    base = cand;
                }
            }
            let form = match self.rng.below(3) {
                0 => Form::Word,
                1 => Form::NV(Value::Int("1".into())),
                _ => Form::List(self.junk_nested()),
            };
            let it = self.item(&base, form);
            out.push(Nested::Item(it));
        }
        if allow_unknown && self.rng.pct(30) {
            let it = self.item("ignored_extra", Form::NV(Value::Int("0".into())));
            out.push(Nested::Item(it));
        }
        // bare literal items
        while self.mistake(self.cfg.allow.literal, 7) {
            let text = self.rng.pick(&["\"lit\"", "42", "true", "'c'", "1.5"]).to_string();
            out.push(Nested::Lit { text, range: ZERO });
        }
        if self.rng.pct(70) {
            self.rng.shuffle(&mut out);
        }
        out
    }
}

/// A name one slip away from `name`.
fn near_miss(name: &str, how: usize) -> String {
    let cs: Vec<char> = name.chars().collect();
    if cs.is_empty() {
        return String::new();
    }
    match how {
        0 => cs[0].to_uppercase().chain(cs[1..].iter().copied()).collect(),
        1 => {
            let at = (cs.len() + 1) / 2;
            cs[..at].iter().copied().chain(std::iter::once('_')).chain(cs[at..].iter().copied()).collect()
        }
        2 => {
            if cs.contains(&'_') {
                let mut out = String::new();
                let mut up = false;
                for c in cs {
                    if c == '_' {
                        up = true;
                    } else if up {
                        out.extend(c.to_uppercase());
                        up = false;
                    } else {
                        out.push(c);
                    }
                }
                out
            } else {
                let n = cs.len() - 1;
                cs[..n].iter().copied().chain(cs[n].to_uppercase()).collect()
            }
        }
        3 => name.to_uppercase(),
        4 => format!("{}_", name),
        5 => cs[..cs.len() - 1].iter().collect(),
        _ => cs.iter().copied().chain(std::iter::once(cs[cs.len() - 1])).collect(),
    }
}

/// Values that are expressions but not literals: every built-in scalar conversion rejects them
/// (`unexpected expression type`), with a span inside the value.
pub const NON_LITERAL_EXPRS: [&str; 10] = ["a::b", "-1", "(1)", "[1]", "m!()", "1 + 2", "{ 1 }", "|x| x", "&x", "x.y"];

pub const META_RECEIVERS: [&str; 36] = [
    "S1", "S2", "S3", "S4", "S5", "S6", "S7", "S8", "S9", "S10", "S11", "S12", "S13", "S14", "S15", "S16", "S17", "E4", "E5", "N1", "N2", "Rec", "F1", "F2", "F3", "F4", "U1", "NT1", "NT2", "W1", "E1",
    "E2", "E3", "EH", "WR", "MP",
];

/// Root receivers of a mode, minus what a degraded build (`PARSESIM_SKIP`) left out.
pub fn receiver_names(mode: &str) -> Vec<&'static str> {
    let mut v = all_receiver_names(mode);
    let skipped = crate::skip_table::skipped();
    v.retain(|n| !skipped.contains(n));
    v
}

fn all_receiver_names(mode: &str) -> Vec<&'static str> {
    if mode == "map" {
        vec!["MP", "F3", "RHS", "RHS", "RHI", "RHP", "RHN", "RHH", "RHB", "RHU", "RBS", "RBI", "RBN"]
    } else if mode == "wild" {
        let mut v = META_RECEIVERS.to_vec();
        v.extend(["L1", "L2", "L3", "L4", "L5", "L1", "L2", "L3", "L4", "L5", "RHS", "RBI", "RHP", "RHN", "RBH"]);
        v.extend(crate::gen_schema::META_NAMES);
        v
    } else {
        let mut v = META_RECEIVERS.to_vec();
        // library conversions: not predicted, judged for what C03 says of any error value
        v.extend(["L1", "L2", "L3", "L4", "L5"]);
        v.extend(["RHS", "RBI", "RHP", "RHN", "RBH"]);
        v.extend(crate::gen_schema::META_NAMES);
        v
    }
}

fn choose_faults(g: &mut Gen, frng: &mut Rng, mode: &str) -> Env {
    let mut env = Env::default();
    let r = frng.below(100);
    let (exactly_one, rate) = if r < 15 {
        (false, 0)
    } else if r < 40 {
        (true, 0)
    } else {
        (false, *frng.pick(&[2u32, 8, 25]))
    };
    // enabled kinds (swarm)
    let mut kinds: Vec<&'static str> = vec!["bare", "spanned", "located", "bundle"];
    kinds.retain(|_| frng.pct(75));
    if kinds.is_empty() {
        kinds.push("bare");
    }
    // Panics in user code are part of every mode's world: in wild / map mode they are a main fault kind;
    // in strict mode (C02 / C03) a few runs end in a caught panic so that later parses on the same
    // thread - first of all this run's own fault-free re-parse - see a thread that has unwound before.
    let (panic_one, panic_rate) = if mode == "wild" || mode == "map" { (25, 20) } else { (6, 5) };
    let all_items = g.all_items.clone();
    let mk = |frng: &mut Rng, kinds: &[&'static str], own: bool| -> Fault {
        let sel = |frng: &mut Rng| -> SpanSel {
            match frng.below(if own { 3 } else { 1 }) {
                1 => SpanSel::OwnPath,
                2 => SpanSel::OwnValue,
                _ if all_items.is_empty() => SpanSel::OwnPath,
                _ => SpanSel::Remote((usize::MAX, *frng.pick(&all_items) as usize)),
            }
        };
        match *frng.pick(kinds) {
            "bare" => Fault::ErrBare,
            "spanned" => Fault::ErrSpanned(sel(frng)),
            "located" => Fault::ErrLocated,
            _ => {
                let k = frng.range(2, 4) as u8;
                let spanned = if frng.pct(40) { Some((frng.below(k as usize) as u8, sel(frng))) } else { None };
                Fault::ErrBundle { k, spanned }
            }
        }
    };
    let mut candidates: Vec<Key> = Vec::new();
    for (id, post) in &g.probe_items {
        candidates.push(Key::Item(*id));
        if *post {
            candidates.push(Key::Post(*id));
        }
    }
    let mut seen_sites = std::collections::BTreeSet::new();
    let mut fallible_sites = Vec::new();
    let mut infallible_sites = Vec::new();
    for (s, h, fallible) in &g.sites {
        if seen_sites.insert((*s, *h)) {
            if *fallible {
                fallible_sites.push(Key::Site(*s, h.to_string()));
            } else {
                infallible_sites.push(Key::Site(*s, h.to_string()));
            }
        }
    }
    if exactly_one {
        let mut pool = candidates.clone();
        // site faults are rarer: they hit every call of that hook
        if frng.pct(20) {
            pool.extend(fallible_sites.iter().cloned());
        }
        if !pool.is_empty() {
            let key = frng.pick(&pool).clone();
            let own = matches!(key, Key::Item(_));
            if frng.pct(panic_one) {
                env.faults.push((key, Fault::Panic));
            } else {
                env.faults.push((key, mk(frng, &kinds, own)));
            }
        }
    } else if rate > 0 {
        for key in candidates {
            if frng.pct(rate) && env.faults.len() < 12 {
                let own = matches!(key, Key::Item(_));
                env.faults.push((key, mk(frng, &kinds, own)));
            }
        }
        for key in fallible_sites {
            if frng.pct(rate / 2) && env.faults.len() < 12 {
                env.faults.push((key, mk(frng, &kinds, false)));
            }
        }
        if frng.pct(panic_rate) {
            // at most one panic per run: the first one ends it
            let mut pool: Vec<Key> = g.probe_items.iter().map(|(id, _)| Key::Item(*id)).collect();
            pool.extend(infallible_sites.iter().cloned());
            if !pool.is_empty() {
                let key = frng.pick(&pool).clone();
                env.faults.retain(|(k, _)| *k != key);
                env.faults.push((key, Fault::Panic));
            }
        }
    }
    // from_none answers
    let mut ns: Vec<u32> = g.none_sites.clone();
    ns.sort();
    ns.dedup();
    for s in ns {
        if frng.pct(12) {
            env.none_some.push(s);
        }
    }
    env.hasher_mode = frng.below(4) as u8;
    env.hasher_seed = frng.next_u64();
    env
}

/// `Remote((usize::MAX, id))` placeholders are resolved to the path start of item `id` once the
/// document has been rendered.
pub fn resolve_remote(env: &mut Env, doc: &InputDoc) {
    let mut starts = std::collections::BTreeMap::new();
    for_each_item(doc, &mut |it| {
        starts.insert(it.id as usize, it.r_path.0);
    });
    let fix = |sel: &mut SpanSel| {
        if let SpanSel::Remote((l, id)) = sel {
            if *l == usize::MAX {
                *sel = match starts.get(id) {
                    Some(p) => SpanSel::Remote(*p),
                    None => SpanSel::OwnPath,
                };
            }
        }
    };
    for (_, f) in env.faults.iter_mut() {
        match f {
            Fault::ErrSpanned(sel) => fix(sel),
            Fault::ErrBundle { spanned: Some((_, sel)), .. } => fix(sel),
            _ => {}
        }
    }
}

pub fn generate(run_seed: u64, mode: &'static str, recvs: &'static std::collections::BTreeMap<&'static str, RecvDesc>) -> Scenario {
    if mode != "map" && Rng::stream(run_seed, "family").pct(40) && !elem_receiver_names().is_empty() {
        return generate_elem(run_seed, mode, recvs);
    }
    let mut grng = Rng::stream(run_seed, "gen");
    let mut frng = Rng::stream(run_seed, "faults");
    let mistake_free = grng.pct(if mode == "wild" { 10 } else { 25 });
    let on = |r: &mut Rng| r.pct(70);
    let allow = if mistake_free {
        Allow { unknown: false, repeat: false, literal: false, bad_value: false, arity: false, malformed: false }
    } else {
        Allow {
            unknown: on(&mut grng),
            repeat: on(&mut grng),
            literal: on(&mut grng),
            bad_value: on(&mut grng),
            arity: on(&mut grng),
            malformed: if mode == "wild" { on(&mut grng) } else { grng.pct(15) },
        }
    };
    let cfg = GenCfg {
        mode,
        p_present: if mistake_free { 100 } else { *grng.pick(&[60u32, 85, 95]) },
        mistakes_left: if mistake_free { 0 } else { grng.range(0, 8) },
        allow,
        max_depth: if mode == "wild" && grng.pct(10) { grng.range(4, 100) } else { grng.range(1, 3) },
    };
    let names: Vec<&'static str> = receiver_names(mode);
    let receiver = *grng.pick(&names);
    let d = recvs.get(receiver).expect("schema").clone();
    let mut g = Gen { rng: &mut grng, cfg, next_id: 0, probe_items: vec![], all_items: vec![], sites: vec![], none_sites: vec![], recvs };
    let top = g.recv_item("m", &d, 0);
    let entry = match g.rng.below(100) {
        0..=74 => Entry::FromMeta,
        75..=94 => Entry::FromList,
        95..=97 => Entry::FromWord,
        _ => Entry::FromNone,
    };
    let multiline = g.rng.pct(40);
    let attr = Attr::Meta(top);
    let mut env = choose_faults(&mut g, &mut frng, mode);
    let mut doc = InputDoc { attrs: vec![attr], ident: "T".into(), generics: vec![], body: Body::Struct(FieldsDoc::Unit), multiline, where_clause: String::new() };
    let mut rendered = doc.clone();
    let _ = render(&mut rendered);
    resolve_remote(&mut env, &rendered);
    doc = rendered;
    Scenario { receiver: receiver.to_string(), entry, doc, env, mode: mode.to_string() }
}

// ------------------------------------------------------------------------------------------------
// element-level workloads

pub const ELEM_RECEIVERS: [&str; 27] = ["AT4", "DI9", "VR5", "AT3", "FR6", "VR4", "TR3", "FR5", "VR3", "TR2", "DI8", "FR4", "DI7", "FR1", "FR2", "FR3", "VR1", "VR2", "TR1", "DI1", "DI2", "DI3", "DI4", "DI5", "DI6", "AT1", "AT2"];

const FOREIGN: [&str; 14] = [
    "doc = \"hi\"", "cfg(test)", "keep", "keep(1 2)", "derive(Debug)", "other(a = 1)", "allow(dead_code)", "zz::yy(=)",
    // paths that extend a name the receiver knows (`a`, `b`, `doc`, `keep`): different attributes
    "a::b", "a::b(c = 1)", "b::x = 1", "doc::hidden", "keep::this(too)", "a::b::c(d)",
];

impl<'r> Gen<'r> {
    /// Split `items` over 1..4 attributes named from `names`, interleaved with attributes nobody asked for.
    fn attrs_for(&mut self, names: &[&'static str], items: Vec<Nested>) -> Vec<Attr> {
        let mut out = Vec::new();
        if names.is_empty() {
            return out;
        }
        let parts = if items.is_empty() {
            self.rng.below(2)
        } else if self.rng.pct(4) {
            // many attributes on one element
            self.rng.range(5, 30)
        } else {
            self.rng.range(1, 4).min(items.len().max(1))
        };
        let mut chunks: Vec<Vec<Nested>> = vec![Vec::new(); parts];
        if parts > 0 {
            // keep source order: cut the sequence at random points
            let mut cuts: Vec<usize> = (0..parts - 1).map(|_| self.rng.below(items.len() + 1)).collect();
            cuts.sort();
            let mut k = 0;
            for (i, it) in items.into_iter().enumerate() {
                while k < cuts.len() && i >= cuts[k] {
                    k += 1;
                }
                chunks[k].push(it);
            }
        }
        for c in chunks {
            if self.rng.pct(35) {
                out.push(Attr::Foreign(self.rng.pick(&FOREIGN).to_string()));
            }
            let name = *self.rng.pick(names);
            let form = if c.is_empty() && self.rng.pct(50) { Form::Word } else { Form::List(c) };
            let it = self.item(name, form);
            out.push(Attr::Meta(it));
        }
        if self.rng.pct(35) {
            out.push(Attr::Foreign(self.rng.pick(&FOREIGN).to_string()));
        }
        // attributes under a recognised name whose body is not a list of items
        if self.mistake(self.cfg.allow.bad_value, 6) {
            let name = *self.rng.pick(names);
            let it = self.item(name, Form::NV(Value::Int("5".into())));
            let pos = self.rng.below(out.len() + 1);
            out.insert(pos, Attr::Meta(it));
        }
        if self.cfg.allow.malformed && self.rng.pct(8) {
            let name = *self.rng.pick(names);
            let f = self.bad_list();
            let it = self.item(name, f);
            let pos = self.rng.below(out.len() + 1);
            out.insert(pos, Attr::Meta(it));
        }
        out
    }

    fn elem_attrs(&mut self, name: &str, depth: usize) -> Vec<Attr> {
        let d = crate::schema::elems().get(name).expect("schema").clone();
        if let Some(inner) = d.newtype_of {
            return self.elem_attrs(inner, depth);
        }
        if let Some(s) = d.from_ident {
            self.sites.push((s, "from_ident", false));
        }
        if let Some(AttrsField::With(s)) = d.attrs_field {
            self.sites.push((s, "attrs_with", true));
        }
        if let Some(GenericsDesc::Probe(s)) = d.generics {
            self.sites.push((s, "from_generics", true));
        }
        if let Some(DataDesc::With(s)) = d.data {
            self.sites.push((s, "data_with", true));
        }
        let mut fake = recv("elem", Shape::Unit);
        fake.container_default = d.container_default.clone();
        fake.container_post = d.container_post.clone();
        let items = self.struct_items(&fake, &d.fields, d.allow_unknown, depth);
        self.attrs_for(&d.attr_names, items)
    }

    fn body_field_doc(&mut self, leaf: Option<&BodyLeaf>, named: Option<String>) -> FieldDoc {
        let id = self.id();
        let attrs = match leaf {
            Some(BodyLeaf::Recv(n)) => self.elem_attrs(n, 1),
            Some(BodyLeaf::Probe(_)) => {
                self.probe_items.push((id, false));
                if self.rng.pct(20) {
                    vec![Attr::Foreign("doc = \"f\"".into())]
                } else {
                    vec![]
                }
            }
            _ => vec![],
        };
        FieldDoc { id, attrs, name: named, ty: self.rng.pick(&["u32", "String", "T", "bool"]).to_string(), vis: self.rng.pick(&["", "pub", "pub(crate)"]).to_string(), r_ty: ZERO }
    }

    fn fields_doc(&mut self, leaf: Option<&BodyLeaf>, style: usize) -> FieldsDoc {
        match style {
            0 => FieldsDoc::Unit,
            1 => {
                let n = if self.rng.pct(4) { self.rng.range(5, 30) } else { self.rng.below(4) };
                FieldsDoc::Named((0..n).map(|i| self.body_field_doc(leaf, Some(format!("f{}", i)))).collect())
            }
            2 => FieldsDoc::Tuple(vec![self.body_field_doc(leaf, None)]),
            _ => {
                let n = if self.rng.pct(4) { self.rng.range(4, 20) } else { *self.rng.pick(&[0usize, 2, 3]) };
                FieldsDoc::Tuple((0..n).map(|_| self.body_field_doc(leaf, None)).collect())
            }
        }
    }

    fn variant_doc(&mut self, vleaf: Option<&BodyLeaf>, i: usize) -> VariantDoc {
        let id = self.id();
        let (attrs, fleaf) = match vleaf {
            Some(BodyLeaf::Recv(n)) => {
                let d = crate::schema::elems().get(n).expect("schema").clone();
                (self.elem_attrs(n, 1), d.variant_fields.clone())
            }
            _ => (vec![], None),
        };
        let style = self.rng.below(4);
        let fields = self.fields_doc(fleaf.as_ref(), style);
        let discriminant = if matches!(fields, FieldsDoc::Unit) && self.rng.pct(20) { Some(format!("{}", i + 1)) } else { None };
        VariantDoc { id, r_name: ZERO, attrs, name: format!("V{}", i), fields, discriminant }
    }

    fn body_doc(&mut self, d: &ElemDesc) -> Body {
        let (vleaf, fleaf) = match &d.data {
            Some(DataDesc::Data { variant, field }) => (Some(variant.clone()), Some(field.clone())),
            _ => (None, None),
        };
        let r = self.rng.below(100);
        if r < 6 {
            let n = self.rng.range(1, 2);
            return Body::Union((0..n).map(|i| self.body_field_doc(None, Some(format!("u{}", i)))).collect());
        }
        if r < 45 {
            let n = if self.rng.pct(4) { self.rng.range(5, 25) } else { self.rng.below(5) };
            return Body::Enum((0..n).map(|i| self.variant_doc(vleaf.as_ref(), i)).collect());
        }
        let style = self.rng.below(4);
        Body::Struct(self.fields_doc(fleaf.as_ref(), style))
    }

    fn generics_doc(&mut self, tr: Option<&'static str>) -> Vec<TParamDoc> {
        let n = if self.rng.pct(4) { self.rng.range(4, 12) } else { self.rng.below(4) };
        (0..n)
            .map(|i| {
                let id = self.id();
                let kind = *self.rng.pick(&["type", "type", "lifetime", "const"]);
                let attrs = match (kind, tr) {
                    ("type", Some(t)) => self.elem_attrs(t, 1),
                    _ => vec![],
                };
                let name = match kind {
                    "lifetime" => format!("l{}", i),
                    "const" => format!("N{}", i),
                    _ => format!("T{}", i),
                };
                const TYPE_TAILS: [&str; 12] = [
                    "Clone", "Clone", "Clone + Send", "?Sized", "'static + Copy", "Iterator<Item = u8>", "for<'x> Fn(&'x u8) -> u8", "= u8", "Clone = Vec<u8>", "?Sized + std::fmt::Debug",
                    "= [u8; 4]", "crate::Tr<{ 1 + 1 }>",
                ];
                let bounds = match kind {
                    "type" if self.rng.pct(30) => self.rng.pick(&TYPE_TAILS).to_string(),
                    "lifetime" if self.rng.pct(20) => "'static".to_string(),
                    "const" if self.rng.pct(20) => self.rng.pick(&["= 3", "= { 1 + 2 }"]).to_string(),
                    _ => String::new(),
                };
                TParamDoc { id, r_name: ZERO, attrs, name, bounds, kind: kind.to_string() }
            })
            .collect()
    }
}

/// Element-level root receivers, minus what a degraded build (`PARSESIM_SKIP`) left out.
pub fn elem_receiver_names() -> Vec<&'static str> {
    let mut elem_names: Vec<&'static str> = ELEM_RECEIVERS.to_vec();
    elem_names.extend(crate::gen_schema::ELEM_NAMES);
    let skipped = crate::skip_table::skipped();
    elem_names.retain(|n| !skipped.contains(n));
    elem_names
}

pub fn generate_elem(run_seed: u64, mode: &'static str, recvs: &'static std::collections::BTreeMap<&'static str, RecvDesc>) -> Scenario {
    let mut grng = Rng::stream(run_seed, "gen");
    let mut frng = Rng::stream(run_seed, "faults");
    let mistake_free = grng.pct(if mode == "wild" { 10 } else { 25 });
    let on = |r: &mut Rng| r.pct(70);
    let allow = if mistake_free {
        Allow { unknown: false, repeat: false, literal: false, bad_value: false, arity: false, malformed: false }
    } else {
        Allow {
            unknown: on(&mut grng),
            repeat: on(&mut grng),
            literal: on(&mut grng),
            bad_value: on(&mut grng),
            arity: on(&mut grng),
            malformed: if mode == "wild" { on(&mut grng) } else { grng.pct(15) },
        }
    };
    let cfg = GenCfg {
        mode,
        p_present: if mistake_free { 100 } else { *grng.pick(&[60u32, 85, 95]) },
        mistakes_left: if mistake_free { 0 } else { grng.range(0, 8) },
        allow,
        max_depth: grng.range(1, 2),
    };
    let elem_names = elem_receiver_names();
    let receiver = *grng.pick(&elem_names);
    let top = crate::schema::elems().get(receiver).expect("schema").clone();
    let d = match top.newtype_of {
        Some(inner) => crate::schema::elems().get(inner).expect("schema").clone(),
        None => top.clone(),
    };
    let mut g = Gen { rng: &mut grng, cfg, next_id: 0, probe_items: vec![], all_items: vec![], sites: vec![], none_sites: vec![], recvs };
    let multiline = g.rng.pct(40);
    let mut doc = InputDoc { attrs: vec![], ident: "Elem".into(), generics: vec![], body: Body::Struct(FieldsDoc::Unit), multiline, where_clause: String::new() };
    let entry;
    match d.kind {
        ElemKind::DeriveInput => {
            doc.attrs = g.elem_attrs(receiver, 0);
            let tr = match &d.generics {
                Some(GenericsDesc::Full(t)) => Some(*t),
                _ => None,
            };
            doc.generics = g.generics_doc(tr);
            if g.rng.pct(15) {
                doc.where_clause = g.rng.pick(&["where u8: Copy", "where T0: Clone", "where 'l0: 'static, T1: ?Sized", "where for<'x> T0: Fn(&'x u8)", "where", "where T0: Iterator, T0::Item: Copy,"]).to_string();
            }
            doc.body = g.body_doc(&d);
            entry = Entry::DeriveInput;
        }
        ElemKind::Attributes => {
            doc.attrs = g.elem_attrs(receiver, 0);
            entry = Entry::Attributes;
        }
        ElemKind::Field => {
            let n = g.rng.range(1, 3);
            let which = g.rng.below(n);
            let named = g.rng.pct(70);
            let leaf = BodyLeaf::Recv(top.name);
            let fs: Vec<FieldDoc> = (0..n)
                .map(|i| {
                    let nm = if named { Some(format!("f{}", i)) } else { None };
                    if i == which {
                        g.body_field_doc(Some(&leaf), nm)
                    } else {
                        g.body_field_doc(None, nm)
                    }
                })
                .collect();
            doc.body = Body::Struct(if named { FieldsDoc::Named(fs) } else { FieldsDoc::Tuple(fs) });
            entry = Entry::Field(which);
        }
        ElemKind::Variant => {
            let n = g.rng.range(1, 3);
            let which = g.rng.below(n);
            let leaf = BodyLeaf::Recv(top.name);
            let vs: Vec<VariantDoc> = (0..n).map(|i| if i == which { g.variant_doc(Some(&leaf), i) } else { g.variant_doc(None, i) }).collect();
            doc.body = Body::Enum(vs);
            entry = Entry::Variant(which);
        }
        ElemKind::TypeParam => {
            let id = g.id();
            let attrs = g.elem_attrs(receiver, 0);
            doc.generics = vec![TParamDoc { id, r_name: ZERO, attrs, name: "T0".into(), bounds: String::new(), kind: "type".into() }];
            entry = Entry::TypeParam(0);
        }
    }
    let mut env = choose_faults(&mut g, &mut frng, mode);
    let mut rendered = doc.clone();
    let _ = render(&mut rendered);
    resolve_remote(&mut env, &rendered);
    Scenario { receiver: receiver.to_string(), entry, doc: rendered, env, mode: mode.to_string() }
}
