fn main(){}
