mod corpus;
mod gen;
mod input;
mod model;
mod oracle;
mod probes;
mod run;
mod schema;
mod world;

use simcore::run_seed;

fn main() {
    run::install_panic_hook();
    let args: Vec<String> = std::env::args().collect();
    let seed: u64 = args.get(1).and_then(|s| s.parse().ok()).unwrap_or(1);
    let n: u64 = args.get(2).and_then(|s| s.parse().ok()).unwrap_or(10);
    let mode: &'static str = match args.get(3).map(|s| s.as_str()) { Some("wild") => "wild", Some("map") => "map", _ => "strict" };
    let recvs = schema::recvs();
    let mut bad = 0;
    for i in 0..n {
        let sc = gen::generate(run_seed(seed, i), mode, recvs);
        let j = run::run(&sc, recvs);
        if let Some(h) = &j.harness_error { println!("#{} HARNESS {}", i, h); bad += 1; continue; }
        if !j.failures.is_empty() {
            bad += 1;
            if bad <= 12 {
                println!("#{} {} {:?}\n  src: {}\n  env: {:?}\n  exp: {}\n  obs: {:?}", i, sc.receiver, sc.entry, j.source.trim(), sc.env.faults, j.expected, j.outcome);
                for f in &j.failures { println!("  FAIL {} {}", f.rule, f.detail); }
            }
        }
    }
    println!("{} / {} runs with failures", bad, n);
}
