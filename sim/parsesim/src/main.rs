//! Simulator B (C02 C03 C07 C14): derived parsers in a fault-injecting world.
//!
//! Sub-commands (JSON summary on stdout):
//!   batch  --prop P --seed S --start A --count N [--workers W] [--digests FILE] [--progress FILE] [--max-failures K]
//!   sweep  --prop P [--workers W]        single-fault sweep: every seam call of canonical inputs x every fault kind
//!   one    --prop P --seed S --index I   print one scenario and its judgement
//!   replay FILE                          re-run the scenario of a replay file; exit 1 + VIOLATION line if it fails
//!   check-stdin P                        judge a scenario given on stdin (used for isolated minimisation)

mod corpus;
mod gen;
mod gen_corpus;
mod gen_schema;
mod input;
mod interleave;
mod minimise;
mod model;
mod oracle;
mod probes;
mod run;
mod schema;
mod skip_table;
mod sweep;
mod world;

use std::collections::BTreeMap;
use std::io::Write;
use std::sync::atomic::{AtomicBool, Ordering};
use std::sync::Mutex;

use serde::{Deserialize, Serialize};
use serde_json::json;
use simcore::pool::{run_parallel, PoolCfg};
use simcore::{run_seed, Fnv, Stats};

use oracle::Failure;
use run::{Judged, Outcome, Scenario};

#[derive(Clone, Debug, Serialize, Deserialize)]
pub struct Replay {
    pub format: u32,
    pub property: String,
    pub rule: String,
    pub sim: String,
    pub verif_seed: Option<u64>,
    pub run_index: Option<String>,
    pub scenario: Scenario,
    pub input_source: String,
    pub expected: String,
    pub observed: String,
    pub detail: String,
    pub observed_digest: String,
    pub signature: serde_json::Value,
    pub minimised: serde_json::Value,
    /// for violations that only show when several parses are interleaved: all members and the schedule
    #[serde(default)]
    pub group: Option<Vec<Scenario>>,
    #[serde(default)]
    pub schedule: Option<Vec<u8>>,
    /// for violations that only show after earlier parses on the same caller thread(s): the steps that
    /// ran before on a fresh thread, in order (minimised); the scenario / group above comes last
    #[serde(default)]
    pub history: Option<Vec<Step>>,
}

/// One step of a session: a single parse on the session's thread, or a group of parses interleaved
/// on the session's caller threads.
#[derive(Clone, Debug, Serialize, Deserialize)]
pub enum Step {
    One(Scenario),
    Group(Vec<Scenario>, Vec<u8>),
}

/// A session is `SESSION` consecutive run indices executed in order on one fresh worker thread (and
/// the caller threads it creates for its groups): everything thread-local that the code under test
/// keeps is then a function of (seed, session prefix), so a violation that needs earlier parses on
/// the same thread is reproduced by replaying that prefix on a fresh thread.
pub const SESSION: u64 = 256;

fn on_fresh_thread<T: Send>(f: impl FnOnce() -> T + Send) -> T {
    std::thread::scope(|s| std::thread::Builder::new().stack_size(64 << 20).spawn_scoped(s, f).expect("spawn").join().expect("fresh thread panicked outside a simulated run"))
}

/// Runs the steps in order on the current thread; the judged results of the last one.
fn run_steps(steps: &[Step]) -> Vec<Judged> {
    let recvs = schema::recvs();
    let mut last = Vec::new();
    for st in steps {
        last = match st {
            Step::One(sc) => vec![run::run(sc, recvs)],
            Step::Group(scs, schedule) => interleave::run_group(scs, schedule).judged,
        };
    }
    last
}

pub fn mode_for(prop: &str) -> &'static str {
    match prop {
        "C07" => "wild",
        "C14" => "map",
        _ => "strict",
    }
}

/// Which rule failures count as violations of `prop`.
pub fn relevant<'a>(prop: &str, mode: &str, j: &'a Judged) -> Vec<Failure> {
    j.failures
        .iter()
        .filter_map(|f| {
            let r = f.rule.as_str();
            match prop {
                "C02" if r.starts_with("C02") => Some(f.clone()),
                "C03" if r.starts_with("C03") => Some(f.clone()),
                "C07" if r.starts_with("C07") => Some(f.clone()),
                // in map mode the same correspondence rules are C14's
                "C14" if mode == "map" && (r.starts_with("C02") || r.starts_with("C14")) => {
                    let rule = match r {
                        "C02.R1" | "C02.R1v" => "C14.R1",
                        "C02.R7" => "C14.R2",
                        x if x.starts_with("C14") => x,
                        _ => "C14.R2",
                    };
                    Some(Failure { rule: rule.to_string(), detail: f.detail.clone() })
                }
                "C14" if mode == "map" && r.starts_with("C07") => Some(Failure { rule: "C14.R5".into(), detail: f.detail.clone() }),
                _ => None,
            }
        })
        .collect()
}

pub fn outcome_digest(j: &Judged) -> u64 {
    let mut f = Fnv::new();
    f.str(&serde_json::to_string(&j.outcome).expect("outcome serialises"));
    f.str(&serde_json::to_string(&j.log).expect("log serialises"));
    f.str(&serde_json::to_string(&j.failures).expect("failures serialise"));
    f.finish()
}

pub fn scenario_digest(sc: &Scenario) -> u64 {
    Fnv::of_str(&serde_json::to_string(sc).expect("scenario serialises"))
}

fn nest_depth(ns: &[input::Nested]) -> usize {
    ns.iter()
        .map(|n| match n {
            input::Nested::Item(it) => match &it.form {
                input::Form::List(inner) => 1 + nest_depth(inner),
                _ => 1,
            },
            _ => 1,
        })
        .max()
        .unwrap_or(0)
}

fn record_stats(st: &mut Stats, sc: &Scenario, j: &Judged) {
    st.inc("runs");
    let depth = sc
        .doc
        .attrs
        .iter()
        .map(|a| match a {
            input::Attr::Meta(it) => match &it.form {
                input::Form::List(inner) => nest_depth(inner),
                _ => 0,
            },
            _ => 0,
        })
        .max()
        .unwrap_or(0);
    st.inc(match depth {
        0..=1 => "input_nesting/0-1",
        2..=3 => "input_nesting/2-3",
        4..=9 => "input_nesting/4-9",
        10..=49 => "input_nesting/10-49",
        _ => "input_nesting/50+",
    });
    st.add("steps", j.seam_calls as u64);
    st.inc(&format!("receiver/{}", sc.receiver));
    st.inc(&format!("entry/{:?}", sc.entry));
    st.inc(match &j.outcome {
        Outcome::Ok(_) => "outcome/ok",
        Outcome::Err { .. } => "outcome/err",
        Outcome::SimPanic(_) => "outcome/injected_panic_reached_caller",
        Outcome::Panic(_) => "outcome/other_panic",
    });
    let fired_keys: std::collections::BTreeSet<&str> = j.fired.iter().map(|(k, _)| k.as_str()).collect();
    for (_, kind) in &j.fired {
        st.inc(&format!("fault_fired/{}", kind));
    }
    for (k, f) in &sc.env.faults {
        if !fired_keys.contains(k.label().as_str()) {
            st.inc(&format!("fault_configured_not_fired/{}", f.kind_name()));
        }
    }
    for m in &j.mistakes {
        st.inc(&format!("mistake/{}", m));
    }
    if !sc.env.none_some.is_empty() {
        st.inc("env/from_none_answers_some");
    }
    for c in &j.log {
        st.inc(&format!("site/{}:{}", c.site, c.hook));
    }
    let nontrivial = !j.fired.is_empty() || !j.mistakes.is_empty();
    if nontrivial {
        st.inc("nontrivial_runs");
        st.distinct("scenario_nontrivial", scenario_digest(sc));
    } else {
        st.inc("fault_free_mistake_free_runs");
    }
    let mut seq = Fnv::new();
    for c in &j.log {
        seq.u64(c.site as u64).str(&c.hook).str(c.fired.as_deref().unwrap_or("-"));
    }
    st.distinct("seam_call_sequence", seq.finish());
    let mut mk: Vec<&str> = j.mistakes.iter().map(|s| s.as_str()).collect();
    mk.sort();
    mk.dedup();
    let mut fk: Vec<&str> = j.fired.iter().map(|(_, k)| k.as_str()).collect();
    fk.sort();
    fk.dedup();
    let mut t = Fnv::new();
    t.str(&sc.receiver).str(&mk.join(",")).str(&fk.join(","));
    st.distinct("receiver_x_mistake_kinds_x_fault_kinds", t.finish());
    // reach probes (C07.R5)
    let err_fault = j.fired.iter().any(|(_, k)| k != "Panic");
    if err_fault && matches!(j.outcome, Outcome::Err { .. }) {
        st.inc("probe/conversion_failed_then_parse_returned_err");
    }
    if matches!(j.outcome, Outcome::SimPanic(_)) {
        st.inc("probe/panic_unwound_through_parser");
        if err_fault || !j.mistakes.is_empty() {
            st.inc("probe/panic_fired_while_errors_were_pending");
        }
    }
    if j.mistakes.iter().any(|m| m == "malformed_list") {
        st.inc("probe/parse_meta_list_failed");
    }
    for m in &j.mistakes {
        if m.starts_with("probe:") {
            st.inc(&format!("probe/{}", &m[6..]));
        }
    }
}

pub fn signature_of(sc: &Scenario, f: &Failure) -> serde_json::Value {
    // a coarse, stable description of what failed: rule + receiver + the kind of leaf concerned
    let kind = f.detail.rsplit_once("(kind ").map(|(_, k)| k.trim_end_matches(')').to_string()).unwrap_or_default();
    json!({"rule": f.rule, "receiver": sc.receiver, "leaf_kind": kind})
}

pub fn make_replay(prop: &str, sc_orig: &Scenario, sc_min: &Scenario, f: &Failure, seed: Option<u64>, index: Option<String>, steps: usize) -> Replay {
    let recvs = schema::recvs();
    let j = run::run(sc_min, recvs);
    let rel = relevant(prop, &sc_min.mode, &j);
    let f2 = rel.iter().find(|x| x.rule == f.rule).or(rel.first()).cloned().unwrap_or_else(|| f.clone());
    Replay {
        format: 1,
        property: prop.to_string(),
        rule: f2.rule.clone(),
        sim: "parse".into(),
        verif_seed: seed,
        run_index: index,
        scenario: sc_min.clone(),
        input_source: j.source.clone(),
        expected: j.expected.clone(),
        observed: format!("{:?}", j.outcome),
        detail: f2.detail.clone(),
        observed_digest: format!("{:016x}", outcome_digest(&j)),
        signature: signature_of(sc_min, &f2),
        minimised: json!({
            "from": minimise::size(sc_orig),
            "to": minimise::size(sc_min),
            "steps": steps
        }),
        group: None,
        schedule: None,
        history: None,
    }
}

/// The scenarios and schedule of run `i` when it is a group run (several parses interleaved on
/// caller threads), else None. A pure function of (seed, i).
fn group_of(seed: u64, i: u64, mode: &'static str) -> Option<(Vec<Scenario>, Vec<u8>)> {
    let rs = run_seed(seed, i);
    let mut g = simcore::Rng::stream(rs, "group");
    if !g.pct(6) {
        return None;
    }
    let n = g.range(2, 3);
    let recvs = schema::recvs();
    let scs = (0..n).map(|k| gen::generate(simcore::rng::splitmix64(rs ^ (k as u64 + 1).wrapping_mul(0xD6E8_FEB8_6659_FD93)), mode, recvs)).collect();
    let mut s = simcore::Rng::stream(rs, "sched");
    let schedule = (0..s.range(0, 60)).map(|_| s.below(n) as u8).collect();
    Some((scs, schedule))
}

fn arg<'a>(args: &'a [String], name: &str) -> Option<&'a str> {
    args.iter().position(|a| a == name).and_then(|i| args.get(i + 1)).map(|s| s.as_str())
}

struct Acc {
    stats: Stats,
    failures: Vec<(u64, Failure, Scenario)>,
    harness: Vec<(u64, String)>,
    digests: Vec<(u64, u64, u64, bool)>,
    samples: BTreeMap<&'static str, (u64, serde_json::Value)>,
}

fn sample_kind(j: &Judged) -> &'static str {
    if matches!(j.outcome, Outcome::SimPanic(_)) {
        "with_injected_panic"
    } else if j.fired.len() >= 2 {
        "multi_fault"
    } else if j.fired.is_empty() && j.mistakes.is_empty() {
        "fault_free_mistake_free"
    } else {
        "other"
    }
}

/// Wall-time bound after which a run that has not returned counts as a hang (C07: "the parsing entry
/// points return a value or an error"). Runs take micro- to milliseconds; `PARSESIM_HANG_SECS` overrides.
fn hang_limit() -> std::time::Duration {
    std::time::Duration::from_secs(std::env::var("PARSESIM_HANG_SECS").ok().and_then(|s| s.parse().ok()).unwrap_or(90))
}

fn step_at(seed: u64, k: u64, mode: &'static str, sweep_mode: bool, sweep_cases: &[Scenario]) -> Step {
    if sweep_mode {
        Step::One(sweep_cases[k as usize].clone())
    } else {
        match group_of(seed, k, mode) {
            Some((scs, schedule)) => Step::Group(scs, schedule),
            None => Step::One(gen::generate(run_seed(seed, k), mode, schema::recvs())),
        }
    }
}

/// Run `i` never came back. Its threads cannot be recovered, so the summary is printed from here and
/// the process ends: for C07 (and C14's totality rule) a violation whose replay carries the session
/// prefix as history; for the other properties a harness error (C07 is the check that decides it).
fn report_hang_and_exit(prop: &str, mode: &'static str, seed: u64, start: u64, i: u64, sweep_mode: bool, sweep_cases: &[Scenario]) -> ! {
    let lo = start + ((i - start) / SESSION) * SESSION;
    let history: Vec<Step> = (lo..i).map(|k| step_at(seed, k, mode, sweep_mode, sweep_cases)).collect();
    let last = step_at(seed, i, mode, sweep_mode, sweep_cases);
    let (sc, group, schedule) = match &last {
        Step::One(m) => (m.clone(), None, None),
        Step::Group(ms, s) => (ms[0].clone(), Some(ms.clone()), Some(s.clone())),
    };
    let idx = if sweep_mode { format!("sweep{}", i) } else { i.to_string() };
    let rule = match prop {
        "C07" => Some("C07.R6"),
        "C14" => Some("C14.R5"),
        _ => None,
    };
    let secs = hang_limit().as_secs();
    let mut doc = sc.doc.clone();
    let source = input::render(&mut doc);
    let out = match rule {
        Some(rule) => {
            let rp = Replay {
                format: 1,
                property: prop.to_string(),
                rule: rule.into(),
                sim: "parse".into(),
                verif_seed: Some(seed),
                run_index: Some(idx),
                scenario: sc.clone(),
                input_source: source,
                expected: "the parse returns (a value, an error, or the injected panic reaching the caller)".into(),
                observed: format!("did not return within {} s of wall time (runs take milliseconds): a hang or a deadlock", secs),
                detail: "the history is the whole session prefix, unminimised (a hung process cannot minimise); the replay runs it under the same watchdog".into(),
                observed_digest: String::new(),
                signature: json!({"rule": rule, "receiver": sc.receiver}),
                minimised: json!({"history_from": history.len(), "history_to": history.len(), "steps": 0}),
                group,
                schedule,
                history: Some(history),
            };
            json!({"sim": "parse", "prop": prop, "mode": if sweep_mode { "sweep" } else { "batch" }, "gen_mode": mode, "seed": seed, "start": start, "count": 0, "runs": 0,
                   "completed": false, "wall_s": 0.0, "counters": {}, "distinct": {}, "failures": 1, "harness_errors": [], "replays": [rp], "samples": [], "hang": true})
        }
        None => json!({"sim": "parse", "prop": prop, "mode": if sweep_mode { "sweep" } else { "batch" }, "gen_mode": mode, "seed": seed, "start": start, "count": 0, "runs": 0,
                   "completed": false, "wall_s": 0.0, "counters": {}, "distinct": {}, "failures": 0,
                   "harness_errors": [{"index": i, "error": format!("run {} did not return within {} s of wall time: a hang in the code under test (property C07 decides it; this check cannot continue)", i, secs)}],
                   "replays": [], "samples": [], "hang": true}),
    };
    println!("{}", out);
    use std::io::Write as _;
    let _ = std::io::stdout().flush();
    std::process::exit(if rule.is_some() { 1 } else { 2 })
}

/// A run of a single-threaded phase never came back (see `run::TRACK`).
fn report_tracked_hang_and_exit(prop: &str, scenario_json: &str, sweep_mode: bool) -> ! {
    let secs = hang_limit().as_secs();
    let rule = match prop {
        "C07" => Some("C07.R6"),
        "C14" => Some("C14.R5"),
        _ => None,
    };
    let sc: Option<Scenario> = serde_json::from_str(scenario_json).ok();
    let out = match (rule, sc) {
        (Some(rule), Some(sc)) => {
            let mut doc = sc.doc.clone();
            let source = input::render(&mut doc);
            let rp = Replay {
                format: 1,
                property: prop.to_string(),
                rule: rule.into(),
                sim: "parse".into(),
                verif_seed: None,
                run_index: Some(format!("{}-{}", if sweep_mode { "sweepbase" } else { "phase" }, sc.receiver)),
                scenario: sc.clone(),
                input_source: source,
                expected: "the parse returns (a value, an error, or the injected panic reaching the caller)".into(),
                observed: format!("did not return within {} s of wall time (runs take milliseconds): a hang or a deadlock", secs),
                detail: "met while enumerating sweep cases or building replays (single-threaded phase)".into(),
                observed_digest: String::new(),
                signature: json!({"rule": rule, "receiver": sc.receiver}),
                minimised: json!({"steps": 0}),
                group: None,
                schedule: None,
                history: None,
            };
            json!({"sim": "parse", "prop": prop, "mode": if sweep_mode { "sweep" } else { "batch" }, "runs": 0, "completed": false, "wall_s": 0.0, "counters": {}, "distinct": {},
                   "failures": 1, "harness_errors": [], "replays": [rp], "samples": [], "hang": true})
        }
        _ => json!({"sim": "parse", "prop": prop, "mode": if sweep_mode { "sweep" } else { "batch" }, "runs": 0, "completed": false, "wall_s": 0.0, "counters": {}, "distinct": {}, "failures": 0,
                   "harness_errors": [{"index": 0, "error": format!("a run did not return within {} s of wall time: a hang in the code under test (property C07 decides it; this check cannot continue)", secs)}],
                   "replays": [], "samples": [], "hang": true}),
    };
    println!("{}", out);
    use std::io::Write as _;
    let _ = std::io::stdout().flush();
    std::process::exit(if rule.is_some() { 1 } else { 2 })
}

fn cmd_batch(args: &[String], sweep_mode: bool) -> i32 {
    run::install_panic_hook();
    let prop = arg(args, "--prop").unwrap_or("C02").to_string();
    let mode = mode_for(&prop);
    let seed: u64 = arg(args, "--seed").map(|s| s.parse().expect("--seed")).unwrap_or(1);
    let start: u64 = arg(args, "--start").map(|s| s.parse().expect("--start")).unwrap_or(0);
    let workers: usize = arg(args, "--workers").map(|s| s.parse().expect("--workers")).unwrap_or(16);
    let max_failures: usize = arg(args, "--max-failures").map(|s| s.parse().expect("--max-failures")).unwrap_or(3);
    let want_digests = arg(args, "--digests").map(|s| s.to_string());
    let recvs = schema::recvs();
    // single-threaded phases (sweep case enumeration, replay creation) run under the tracked watchdog
    run::TRACK.store(true, Ordering::Relaxed);
    {
        let prop = prop.clone();
        std::thread::spawn(move || loop {
            std::thread::sleep(std::time::Duration::from_millis(500));
            let stuck = match &*run::CURRENT.lock().unwrap_or_else(|e| e.into_inner()) {
                Some((sc, since)) if since.elapsed() > hang_limit() => Some(sc.clone()),
                _ => None,
            };
            if let Some(sc) = stuck {
                report_tracked_hang_and_exit(&prop, &sc, sweep_mode);
            }
        });
    }
    if gen::receiver_names(mode).is_empty() {
        eprintln!("HARNESS-ERROR: no receiver of mode {} is left in this build (PARSESIM_SKIP={})", mode, skip_table::REQUESTED);
        return 2;
    }
    let sweep_cases: std::sync::Arc<Vec<Scenario>> = std::sync::Arc::new(if sweep_mode { sweep::cases(mode, recvs) } else { Vec::new() });
    let count: u64 = if sweep_mode { sweep_cases.len() as u64 } else { arg(args, "--count").map(|s| s.parse().expect("--count")).unwrap_or(1000) };
    let progress = arg(args, "--progress").map(|p| std::fs::OpenOptions::new().create(true).write(true).truncate(true).open(p).expect("progress file"));
    // hang watchdog: a run that does not come back within HANG of wall time never will
    let epoch = std::time::Instant::now();
    let beats: std::sync::Arc<Vec<std::sync::atomic::AtomicU64>> = std::sync::Arc::new((0..2 * workers.max(1)).map(|_| std::sync::atomic::AtomicU64::new(0)).collect());
    {
        let beats = beats.clone();
        let prop = prop.clone();
        let sweep_cases = sweep_cases.clone();
        std::thread::spawn(move || loop {
            std::thread::sleep(std::time::Duration::from_millis(500));
            let now = epoch.elapsed().as_millis() as u64;
            for slot in 0..beats.len() / 2 {
                let idx = beats[2 * slot].load(Ordering::Acquire);
                let since = beats[2 * slot + 1].load(Ordering::Relaxed);
                if idx != 0 && now.saturating_sub(since) > hang_limit().as_millis() as u64 && beats[2 * slot].load(Ordering::Acquire) == idx {
                    report_hang_and_exit(&prop, mode, seed, start, idx - 1, sweep_mode, &sweep_cases);
                }
            }
        });
    }
    // one session = one chunk = one fresh worker thread
    let cfg = PoolCfg { workers, stack_bytes: 64 << 20, retire_after: SESSION, chunk: SESSION, progress, beats: Some(beats), epoch };
    let stop = AtomicBool::new(false);
    let nfail = Mutex::new(0usize);
    let t0 = std::time::Instant::now();
    run::TRACK.store(false, Ordering::Relaxed);
    let accs = run_parallel(
        start,
        count,
        &cfg,
        &stop,
        || Acc { stats: Stats::new(), failures: Vec::new(), harness: Vec::new(), digests: Vec::new(), samples: BTreeMap::new() },
        |i, acc: &mut Acc| {
            // a fraction of the seeded runs are groups of parses interleaved on caller threads
            if !sweep_mode {
                if let Some((scs, schedule)) = group_of(seed, i, mode) {
                    let gr = interleave::run_group(&scs, &schedule);
                    acc.stats.inc("interleaved_groups");
                    acc.stats.add("interleaved_parses", scs.len() as u64);
                    acc.stats.add("interleaved_context_switches", gr.schedule_taken.windows(2).filter(|w| w[0] != w[1]).count() as u64);
                    acc.stats.add("interleaved_steps_while_another_parse_is_mid_unwind", gr.overlap_events);
                    let mut f = Fnv::new();
                    f.bytes(&gr.schedule_taken);
                    acc.stats.distinct("interleaving", f.finish());
                    let mut digest = Fnv::new();
                    for (sc, j) in scs.iter().zip(&gr.judged) {
                        if let Some(h) = &j.harness_error {
                            acc.harness.push((i, h.clone()));
                            stop.store(true, Ordering::Relaxed);
                            return;
                        }
                        record_stats(&mut acc.stats, sc, j);
                        digest.u64(outcome_digest(j));
                        if let Some(f) = relevant(&prop, mode, j).into_iter().next() {
                            acc.failures.push((i, f, sc.clone()));
                            let mut n = nfail.lock().unwrap();
                            *n += 1;
                            if *n >= max_failures {
                                stop.store(true, Ordering::Relaxed);
                            }
                        }
                    }
                    if want_digests.is_some() {
                        acc.digests.push((i, scenario_digest(&scs[0]), digest.finish(), gr.judged.iter().any(|j| !j.failures.is_empty())));
                    }
                    return;
                }
            }
            let sc = if sweep_mode { sweep_cases[i as usize].clone() } else { gen::generate(run_seed(seed, i), mode, recvs) };
            let j = run::run(&sc, recvs);
            if let Some(h) = &j.harness_error {
                acc.harness.push((i, h.clone()));
                stop.store(true, Ordering::Relaxed);
                return;
            }
            record_stats(&mut acc.stats, &sc, &j);
            if want_digests.is_some() {
                acc.digests.push((i, scenario_digest(&sc), outcome_digest(&j), !j.failures.is_empty()));
            }
            let kind = sample_kind(&j);
            match acc.samples.get(kind) {
                Some((k, _)) if *k <= i => {}
                _ => {
                    acc.samples.insert(
                        kind,
                        (i, json!({"index": i, "receiver": sc.receiver, "entry": sc.entry, "input_source": j.source, "faults": sc.env.faults, "expected": j.expected, "observed": format!("{:?}", j.outcome).chars().take(600).collect::<String>(), "seam_calls": j.log.len()})),
                    );
                }
            }
            let rel = relevant(&prop, mode, &j);
            let others = j.failures.len() - j.failures.iter().filter(|f| rel.iter().any(|r| r.detail == f.detail)).count();
            if others > 0 {
                acc.stats.add("other_property_rule_failures", others as u64);
            }
            if let Some(f) = rel.into_iter().next() {
                acc.failures.push((i, f, sc));
                let mut n = nfail.lock().unwrap();
                *n += 1;
                if *n >= max_failures {
                    stop.store(true, Ordering::Relaxed);
                }
            }
        },
    );
    run::TRACK.store(true, Ordering::Relaxed);
    let mut stats = Stats::new();
    let mut failures = Vec::new();
    let mut harness = Vec::new();
    let mut digests = Vec::new();
    let mut samples: BTreeMap<&'static str, (u64, serde_json::Value)> = BTreeMap::new();
    for a in accs {
        stats.merge(a.stats);
        failures.extend(a.failures);
        harness.extend(a.harness);
        digests.extend(a.digests);
        for (k, (i, v)) in a.samples {
            match samples.get(k) {
                Some((j, _)) if *j <= i => {}
                _ => {
                    samples.insert(k, (i, v));
                }
            }
        }
    }
    failures.sort_by_key(|f| f.0);
    harness.sort();
    if let Some(path) = want_digests {
        digests.sort();
        let mut f = std::io::BufWriter::new(std::fs::File::create(path).expect("digest file"));
        for (i, s, t, bad) in digests {
            writeln!(f, "{} {:016x} {:016x} {}", i, s, t, bad as u8).unwrap();
        }
    }
    // one replay per distinct signature, minimised in-process
    let mut replays: Vec<Replay> = Vec::new();
    let mut seen_sig = std::collections::BTreeSet::new();
    for (i, f, sc) in failures.iter() {
        let sig = signature_of(sc, f).to_string();
        if !seen_sig.insert(sig) || replays.len() >= max_failures {
            continue;
        }
        let idx = if sweep_mode { format!("sweep{}", i) } else { i.to_string() };
        let fails = |js: &[Judged], scs: &[&Scenario]| js.iter().zip(scs).any(|(j, m)| relevant(&prop, &m.mode, j).iter().any(|x| x.rule == f.rule));
        // (a) alone, on a fresh thread
        let alone = on_fresh_thread(|| run::run(sc, recvs));
        if fails(std::slice::from_ref(&alone), &[sc]) {
            let (min, steps) = on_fresh_thread(|| minimise::minimise(&prop, sc, &f.rule, 1500));
            replays.push(on_fresh_thread(|| make_replay(&prop, sc, &min, f, Some(seed), Some(idx.clone()), steps)));
            continue;
        }
        // (b) only when interleaved with the other parses of its group (fresh caller threads)
        let group = if sweep_mode { None } else { group_of(seed, *i, mode) };
        if let Some((scs, schedule)) = &group {
            let members: Vec<&Scenario> = scs.iter().collect();
            let js = on_fresh_thread(|| interleave::run_group(scs, schedule).judged);
            if fails(&js, &members) {
                let mut rp = on_fresh_thread(|| make_replay(&prop, sc, sc, f, Some(seed), Some(idx.clone()), 0));
                rp.detail = format!("{} [fails only when interleaved with the other parses of its group]", f.detail);
                rp.rule = f.rule.clone();
                rp.group = Some(scs.clone());
                rp.schedule = Some(schedule.clone());
                replays.push(rp);
                continue;
            }
        }
        // (c) only after what ran before in its session, on the same thread(s)
        let lo = start + ((*i - start) / SESSION) * SESSION;
        let step_of = |k: u64| -> Step {
            if sweep_mode {
                Step::One(sweep_cases[k as usize].clone())
            } else {
                match group_of(seed, k, mode) {
                    Some((scs, schedule)) => Step::Group(scs, schedule),
                    None => Step::One(gen::generate(run_seed(seed, k), mode, recvs)),
                }
            }
        };
        let last = step_of(*i);
        let last_members: Vec<Scenario> = match &last {
            Step::One(m) => vec![m.clone()],
            Step::Group(ms, _) => ms.clone(),
        };
        let with_history = |hist: &[Step]| -> bool {
            let mut steps: Vec<Step> = hist.to_vec();
            steps.push(last.clone());
            let js = on_fresh_thread(|| run_steps(&steps));
            let members: Vec<&Scenario> = last_members.iter().collect();
            fails(&js, &members)
        };
        let history: Vec<Step> = (lo..*i).map(step_of).collect();
        let mut rp = on_fresh_thread(|| make_replay(&prop, sc, sc, f, Some(seed), Some(idx.clone()), 0));
        rp.rule = f.rule.clone();
        if with_history(&history) {
            let from = history.len();
            let mut budget = 400usize;
            let min_hist = simcore::ddmin::ddmin(history, &mut budget, &mut |h: &[Step]| with_history(h));
            rp.detail = format!("{} [fails only after the {} earlier step(s) of its session listed under `history`, replayed in order on a fresh thread]", f.detail, min_hist.len());
            rp.minimised = json!({"history_from": from, "history_to": min_hist.len(), "steps": 400 - budget});
            if let Step::Group(ms, schedule) = &last {
                rp.group = Some(ms.clone());
                rp.schedule = Some(schedule.clone());
            }
            // what the failing parse looked like after that history
            let mut steps: Vec<Step> = min_hist.clone();
            steps.push(last.clone());
            let js = on_fresh_thread(|| run_steps(&steps));
            for (m, j) in last_members.iter().zip(&js) {
                if relevant(&prop, &m.mode, j).iter().any(|x| x.rule == f.rule) {
                    rp.scenario = m.clone();
                    rp.input_source = j.source.clone();
                    rp.expected = j.expected.clone();
                    rp.observed = format!("{:?}", j.outcome);
                    rp.observed_digest = format!("{:016x}", outcome_digest(j));
                    break;
                }
            }
            rp.history = Some(min_hist);
        } else {
            rp.detail = format!(
                "{} [observed once in the batch; it reproduces neither alone, nor in its group, nor after its session's history on a fresh thread: it depends on state shared between concurrently running sessions (process-wide) - re-run the batch to see it]",
                f.detail
            );
        }
        replays.push(rp);
    }
    let distinct: BTreeMap<String, u64> = stats.sets.iter().map(|(k, v)| (k.clone(), v.len() as u64)).collect();
    let out = json!({
        "sim": "parse", "prop": prop, "mode": if sweep_mode { "sweep" } else { "batch" }, "gen_mode": mode,
        "seed": seed, "start": start, "count": count,
        "runs": stats.get("runs"),
        "completed": !stop.load(Ordering::Relaxed),
        "wall_s": t0.elapsed().as_secs_f64(),
        "counters": stats.counters,
        "distinct": distinct,
        "failures": failures.len(),
        "corpus_skip_requested": skip_table::REQUESTED,
        "corpus_skipped": skip_table::skipped(),
        "corpus_receivers": skip_table::ALL.len(),
        "corpus_sites": schema::all_sites().into_iter().collect::<Vec<u32>>(),
        "harness_errors": harness.iter().take(3).map(|(i, h)| json!({"index": i, "error": h})).collect::<Vec<_>>(),
        "replays": replays,
        "samples": samples.values().map(|(_, v)| v.clone()).collect::<Vec<_>>(),
    });
    println!("{}", out);
    if !harness.is_empty() {
        2
    } else if failures.is_empty() {
        0
    } else {
        1
    }
}

fn cmd_replay(path: &str) -> i32 {
    // under the same watchdog as the batch: a replay that hangs is a replay that shows the hang
    let (tx, rx) = std::sync::mpsc::channel();
    let p = path.to_string();
    std::thread::Builder::new().stack_size(64 << 20).spawn(move || { let _ = tx.send(cmd_replay_inner(&p)); }).expect("spawn");
    match rx.recv_timeout(hang_limit()) {
        Ok(code) => code,
        Err(_) => {
            let prop = std::fs::read_to_string(path).ok().and_then(|t| serde_json::from_str::<Replay>(&t).ok()).map(|r| r.property).unwrap_or_default();
            println!("rule=C07.R6 did not return within {} s of wall time: a hang or a deadlock", hang_limit().as_secs());
            println!("VIOLATION property={} replay={}", prop, path);
            use std::io::Write as _;
            let _ = std::io::stdout().flush();
            std::process::exit(1)
        }
    }
}

fn cmd_replay_inner(path: &str) -> i32 {
    run::install_panic_hook();
    let text = std::fs::read_to_string(path).expect("replay file readable");
    let rp: Replay = serde_json::from_str(&text).expect("replay file parses");
    let recvs = schema::recvs();
    if let Some(hist) = &rp.history {
        // the history first, in order, then the scenario / group, all on one fresh thread
        let last = match (&rp.group, &rp.schedule) {
            (Some(g), Some(s)) => Step::Group(g.clone(), s.clone()),
            _ => Step::One(rp.scenario.clone()),
        };
        let members: Vec<Scenario> = match &last {
            Step::One(m) => vec![m.clone()],
            Step::Group(ms, _) => ms.clone(),
        };
        let mut steps = hist.clone();
        steps.push(last);
        let js = on_fresh_thread(|| run_steps(&steps));
        let mut bad = false;
        let mut same = false;
        for (m, j) in members.iter().zip(&js) {
            if let Some(h) = &j.harness_error {
                println!("HARNESS-ERROR: {}", h);
                return 2;
            }
            for f in relevant(&rp.property, &m.mode, j) {
                println!("rule={} receiver={} {}", f.rule, m.receiver, f.detail);
                same |= f.rule == rp.rule;
                bad = true;
            }
        }
        if bad {
            println!("after {} earlier step(s) on the same thread", hist.len());
            println!("reproduced_exactly={}", same);
            println!("VIOLATION property={} replay={}", rp.property, path);
            return 1;
        }
        println!("no violation: history + scenario of {} satisfy every {} rule on this tree", path, rp.property);
        return 0;
    }
    if let (Some(group), Some(schedule)) = (&rp.group, &rp.schedule) {
        let gr = interleave::run_group(group, schedule);
        let mut bad = false;
        for (sc, j) in group.iter().zip(&gr.judged) {
            for f in relevant(&rp.property, &sc.mode, j) {
                println!("rule={} receiver={} {}", f.rule, sc.receiver, f.detail);
                bad = true;
            }
        }
        if bad {
            println!("VIOLATION property={} replay={}", rp.property, path);
            return 1;
        }
        println!("no violation: the interleaved group of {} satisfies every {} rule on this tree", path, rp.property);
        return 0;
    }
    let j = run::run(&rp.scenario, recvs);
    if let Some(h) = j.harness_error {
        println!("HARNESS-ERROR: {}", h);
        return 2;
    }
    let rel = relevant(&rp.property, &rp.scenario.mode, &j);
    if rel.is_empty() {
        println!("no violation: scenario of {} satisfies every {} rule on this tree", path, rp.property);
        return 0;
    }
    for f in &rel {
        println!("rule={} {}", f.rule, f.detail);
    }
    let same = rel.iter().any(|f| f.rule == rp.rule) && format!("{:016x}", outcome_digest(&j)) == rp.observed_digest;
    println!("input: {}", j.source.trim());
    println!("reproduced_exactly={}", same);
    println!("VIOLATION property={} replay={}", rp.property, path);
    1
}

fn cmd_one(args: &[String]) -> i32 {
    run::install_panic_hook();
    let prop = arg(args, "--prop").unwrap_or("C02").to_string();
    let seed: u64 = arg(args, "--seed").map(|s| s.parse().expect("--seed")).unwrap_or(1);
    let index: u64 = arg(args, "--index").map(|s| s.parse().expect("--index")).unwrap_or(0);
    let recvs = schema::recvs();
    let sc = gen::generate(run_seed(seed, index), mode_for(&prop), recvs);
    let j = run::run(&sc, recvs);
    println!("{}", serde_json::to_string_pretty(&json!({"scenario": sc, "judged": j})).unwrap());
    (!relevant(&prop, &sc.mode, &j).is_empty()) as i32
}

fn cmd_check_stdin(prop: &str) -> i32 {
    run::install_panic_hook();
    let mut s = String::new();
    std::io::Read::read_to_string(&mut std::io::stdin(), &mut s).expect("stdin");
    let sc: Scenario = serde_json::from_str(&s).expect("scenario parses");
    let j = run::run(&sc, schema::recvs());
    let rel = relevant(prop, &sc.mode, &j);
    println!("{}", json!({"rule": rel.first().map(|f| f.rule.clone())}));
    0
}

/// The batch or sweep child died: regenerate the named run (generation never calls the parser),
/// confirm in a child that it kills a process, minimise with one child per candidate, print a replay.
fn cmd_minimise_isolated(args: &[String]) -> i32 {
    let prop = arg(args, "--prop").unwrap_or("C07").to_string();
    let seed: u64 = arg(args, "--seed").map(|s| s.parse().expect("--seed")).unwrap_or(1);
    let recvs = schema::recvs();
    let (sc, idx) = if let Some(i) = arg(args, "--sweep-index") {
        let i: usize = i.parse().expect("--sweep-index");
        let cases = sweep::cases(mode_for(&prop), recvs);
        match cases.get(i) {
            Some(c) => (c.clone(), format!("sweep{}", i)),
            None => {
                println!("{}", json!({"reproduced": false}));
                return 0;
            }
        }
    } else {
        let index: u64 = arg(args, "--index").map(|s| s.parse().expect("--index")).unwrap_or(0);
        match group_of(seed, index, mode_for(&prop)) {
            // a group run: the member that kills a process on its own, if any
            Some((scs, _)) => match scs.into_iter().find(|m| minimise::dies_in_child(&prop, m)) {
                Some(m) => (m, index.to_string()),
                None => {
                    println!("{}", json!({"reproduced": false}));
                    return 0;
                }
            },
            None => (gen::generate(run_seed(seed, index), mode_for(&prop), recvs), index.to_string()),
        }
    };
    if !minimise::dies_in_child(&prop, &sc) {
        println!("{}", json!({"reproduced": false}));
        return 0;
    }
    let (min, steps) = minimise::minimise_with(&sc, 200, &mut |c| minimise::dies_in_child(&prop, c));
    let mut doc = min.doc.clone();
    let source = input::render(&mut doc);
    let rp = Replay {
        format: 1,
        property: prop.clone(),
        rule: "C07.R3".into(),
        sim: "parse".into(),
        verif_seed: Some(seed),
        run_index: Some(idx),
        scenario: min.clone(),
        input_source: source,
        expected: "the process survives (a value, an error, or the injected panic reaching the caller)".into(),
        observed: "the child process running this scenario died by signal (abort on a panic inside a destructor during an unwind, or stack exhaustion)".into(),
        detail: String::new(),
        observed_digest: String::new(),
        signature: json!({"rule": "C07.R3", "receiver": min.receiver}),
        minimised: json!({"from": minimise::size(&sc), "to": minimise::size(&min), "steps": steps, "one_child_process_per_candidate": true}),
        group: None,
        schedule: None,
        history: None,
    };
    println!("{}", json!({"reproduced": true, "replay": rp}));
    1
}

fn main() {
    let args: Vec<String> = std::env::args().collect();
    let code = match args.get(1).map(|s| s.as_str()) {
        Some("batch") => cmd_batch(&args, false),
        Some("sweep") => cmd_batch(&args, true),
        Some("one") => cmd_one(&args),
        Some("replay") => cmd_replay(args.get(2).expect("replay FILE")),
        Some("check-stdin") => cmd_check_stdin(args.get(2).map(|s| s.as_str()).unwrap_or("C07")),
        Some("minimise-isolated") => cmd_minimise_isolated(&args),
        _ => {
            eprintln!("usage: parsesim batch|sweep|one|replay ...");
            2
        }
    };
    std::process::exit(code);
}
