//! Data description of every corpus receiver: what the reference model and the generator know
//! about it. Written next to `corpus.rs`; the model self-check (fault-free, mistake-free runs of
//! every receiver must be `Ok` and equal the model) is what keeps the two from drifting.

use std::collections::BTreeMap;

#[derive(Clone, Debug, PartialEq)]
pub enum KeyKind {
    Str,
    Ident,
    Path,
}

#[derive(Clone, Debug, PartialEq)]
pub enum Ty {
    /// `PM<site>`: overrides from_meta / from_none
    PM(u32),
    /// `PH<site>`: overrides hooks only
    PH(u32),
    /// `PV<site>`: overrides `from_value` (handed the literal)
    PV(u32),
    /// `PE<site>`: overrides `from_expr` (handed the expression)
    PE(u32),
    /// `Override<PV<site>>`
    OverridePV(u32),
    Opt(Box<Ty>),
    /// Box / Rc / Arc / RefCell
    Boxed(Box<Ty>),
    /// darling::Result<T>
    DResult(Box<Ty>),
    /// Result<T, syn::Meta>
    MResult(Box<Ty>),
    Spanned(Box<Ty>),
    WithOrig(Box<Ty>),
    /// Override<PH<site>>
    OverridePH(u32),
    Recv(&'static str),
    Map { key: KeyKind, val: Box<Ty>, btree: bool },
    U8,
    Bool,
    Str,
    Char,
    /// darling::util::Flag
    Flag,
    /// darling::util::PathList
    PathList,
    /// a built-in or library conversion the model does not predict: such a run is judged for
    /// totality only (C07), never for which errors come back
    Any(&'static str),
}

#[derive(Clone, Debug, PartialEq)]
pub enum FieldDefault {
    None,
    /// `#[darling(default)]`: `Default::default()` of the field type
    Trait,
    /// `#[darling(default = pdef::<site>)]`
    Fn(u32),
}

#[derive(Clone, Debug, PartialEq)]
pub enum Post {
    None,
    Map,
    AndThen,
}

#[derive(Clone, Debug)]
pub struct FieldDesc {
    pub rust: &'static str,
    /// name in the attribute (after rename / rename_all)
    pub name: &'static str,
    pub ty: Ty,
    pub multiple: bool,
    pub default: FieldDefault,
    pub skip: bool,
    pub flatten: bool,
    pub with: bool,
    pub post: Post,
}

pub fn f(rust: &'static str, ty: Ty) -> FieldDesc {
    FieldDesc { rust, name: rust, ty, multiple: false, default: FieldDefault::None, skip: false, flatten: false, with: false, post: Post::None }
}

impl FieldDesc {
    pub fn named(mut self, n: &'static str) -> Self {
        self.name = n;
        self
    }
    pub fn multiple(mut self) -> Self {
        self.multiple = true;
        self
    }
    pub fn dflt(mut self) -> Self {
        self.default = FieldDefault::Trait;
        self
    }
    pub fn dfn(mut self, site: u32) -> Self {
        self.default = FieldDefault::Fn(site);
        self
    }
    pub fn skip(mut self) -> Self {
        self.skip = true;
        self
    }
    pub fn flatten(mut self) -> Self {
        self.flatten = true;
        self
    }
    pub fn with(mut self) -> Self {
        self.with = true;
        self
    }
    pub fn map(mut self) -> Self {
        self.post = Post::Map;
        self
    }
    pub fn and_then(mut self) -> Self {
        self.post = Post::AndThen;
        self
    }
}

#[derive(Clone, Debug)]
pub enum VariantKind {
    Unit,
    Newtype(Ty),
    Struct { fields: Vec<FieldDesc>, allow_unknown: bool },
}

#[derive(Clone, Debug)]
pub struct VariantDesc {
    pub rust: &'static str,
    pub name: &'static str,
    pub kind: VariantKind,
    pub skip: bool,
    pub word: bool,
}

pub fn v(rust: &'static str, name: &'static str, kind: VariantKind) -> VariantDesc {
    VariantDesc { rust, name, kind, skip: false, word: false }
}

#[derive(Clone, Debug)]
pub enum Shape {
    Struct(Vec<FieldDesc>),
    Unit,
    Newtype(Ty),
    Enum(Vec<VariantDesc>),
    /// not a derived receiver at all: a name for a library type (root-level map targets)
    Alias(Ty),
}

#[derive(Clone, Debug)]
pub enum ContainerDefault {
    /// `#[darling(default)]`: hand-written Default impl = seam(site), then Default of every field
    Trait(u32),
    /// `#[darling(default = fn)]`: seam(site), then every field `Tok::DefaultFn(field site)`
    Fn(u32),
}

#[derive(Clone, Debug)]
pub struct RecvDesc {
    pub name: &'static str,
    pub shape: Shape,
    pub allow_unknown: bool,
    pub container_default: Option<ContainerDefault>,
    /// container-level and_then (fallible) or map (infallible) callable site
    pub container_post: Option<(Post, u32)>,
    /// `from_word = cword::<site, _>` (value: the receiver's Default)
    pub from_word: Option<u32>,
    /// `from_none = cnone::<site, _>`
    pub from_none: Option<u32>,
}

pub fn recv(name: &'static str, shape: Shape) -> RecvDesc {
    RecvDesc { name, shape, allow_unknown: false, container_default: None, container_post: None, from_word: None, from_none: None }
}

pub fn pm(s: u32) -> Ty {
    Ty::PM(s)
}
pub fn ph(s: u32) -> Ty {
    Ty::PH(s)
}
pub fn opt(t: Ty) -> Ty {
    Ty::Opt(Box::new(t))
}
pub fn bx(t: Ty) -> Ty {
    Ty::Boxed(Box::new(t))
}
pub fn r(n: &'static str) -> Ty {
    Ty::Recv(n)
}
pub fn hmap(key: KeyKind, val: Ty) -> Ty {
    Ty::Map { key, val: Box::new(val), btree: false }
}
pub fn bmap(key: KeyKind, val: Ty) -> Ty {
    Ty::Map { key, val: Box::new(val), btree: true }
}

/// The schema table, built once.
pub fn recvs() -> &'static BTreeMap<&'static str, RecvDesc> {
    static TABLE: std::sync::OnceLock<BTreeMap<&'static str, RecvDesc>> = std::sync::OnceLock::new();
    TABLE.get_or_init(meta_receivers)
}

/// The FromMeta part of the corpus.
pub fn meta_receivers() -> BTreeMap<&'static str, RecvDesc> {
    use Shape::*;
    let mut m = BTreeMap::new();
    let mut add = |d: RecvDesc| {
        m.insert(d.name, d);
    };
    add(recv("S1", Struct(vec![f("a", pm(101)), f("b", opt(pm(102))), f("c", pm(103)).dflt(), f("d", pm(104)).dfn(104)])));
    add(recv(
        "S2",
        Struct(vec![f("m", pm(201)).multiple(), f("n", pm(202)).multiple().dfn(202), f("mo", pm(203)).multiple().named("o")]),
    ));
    add(recv(
        "S3",
        Struct(vec![
            f("a", pm(301)).with(),
            f("b", pm(302)).map(),
            f("c", pm(303)).and_then(),
            f("d", pm(304)).with().and_then().dflt(),
        ]),
    ));
    add(recv("S4", Struct(vec![f("s", pm(401)).skip().dflt(), f("t", pm(402)).skip().dfn(402), f("r", pm(403)).named("x")])));
    add(RecvDesc {
        container_default: Some(ContainerDefault::Trait(500)),
        ..recv("S5", Struct(vec![f("a", pm(501)), f("b", opt(pm(502))), f("c", pm(503)).dfn(503)]))
    });
    add(RecvDesc { container_default: Some(ContainerDefault::Fn(600)), ..recv("S6", Struct(vec![f("a", pm(601)), f("s", pm(602)).skip()])) });
    add(RecvDesc { container_post: Some((Post::AndThen, 700)), ..recv("S7", Struct(vec![f("a", pm(701)), f("b", pm(702))])) });
    add(RecvDesc { container_post: Some((Post::Map, 800)), ..recv("S8", Struct(vec![f("a", pm(801))])) });
    add(RecvDesc {
        allow_unknown: true,
        ..recv("S9", Struct(vec![f("long_name", pm(901)).named("longName"), f("other_one", opt(pm(902))).named("otherOne")]))
    });
    add(recv("S10", Struct(vec![f("h", ph(1001)), f("i", opt(ph(1002))), f("j", ph(1003)).multiple()])));
    add(recv(
        "S11",
        Struct(vec![f("u", Ty::U8), f("t", Ty::Bool), f("s", Ty::Str), f("c", Ty::Char), f("p", pm(1101)), f("ou", opt(Ty::U8))]),
    ));
    add(recv(
        "S12",
        Struct(vec![
            f("v", Ty::PV(1201)),
            f("ov", opt(Ty::PV(1202))),
            f("e", Ty::PE(1203)),
            f("me", Ty::PE(1204)).multiple(),
            f("sv", opt(Ty::Spanned(Box::new(Ty::PV(1205))))),
            f("bv", opt(bx(Ty::PE(1206)))),
            f("ovr", opt(Ty::OverridePV(1207))),
        ]),
    ));
    add(recv(
        "S13",
        Struct(vec![
            f("fl", Ty::Flag),
            f("pl", opt(Ty::PathList)),
            f("pl2", Ty::PathList),
            f("sb", opt(Ty::Spanned(Box::new(Ty::Bool)))),
            f("p", opt(pm(1301 + 10))),
        ]),
    ));
    add(recv(
        "S14",
        Struct(vec![
            f("mw", pm(5101)).multiple().with(),
            f("mm", pm(5102)).multiple().map(),
            f("ma", pm(5103)).multiple().and_then(),
            f("wm", pm(5104)).with().map(),
            f("wd", pm(5105)).with().dfn(5105),
            f("ad", pm(5106)).and_then().dfn(5106),
            f("rw", pm(5107)).named("rn").with().dflt(),
            f("md", pm(5108)).multiple().dflt(),
            f("mrd", pm(5109)).multiple().named("mr").dfn(5109).and_then(),
            f("wo", opt(pm(5110))).with(),
            f("rmap", pm(5111)).named("ro").dflt().map(),
        ]),
    ));
    add(RecvDesc {
        allow_unknown: true,
        container_default: Some(ContainerDefault::Trait(5200)),
        container_post: Some((Post::AndThen, 5210)),
        ..recv("S15", Struct(vec![f("a", pm(5201)), f("m", pm(5202)).multiple(), f("rest", r("S1")).flatten(), f("sk", pm(5203)).skip()]))
    });
    add(RecvDesc { allow_unknown: true, ..recv("S16", Struct(vec![f("a", pm(5251)), f("rest", r("S1")).flatten()])) });
    add(recv(
        "E4",
        Enum(vec![
            VariantDesc { word: true, ..v("TheDefault", "thedefault", VariantKind::Unit) },
            v("Newt", "nt", VariantKind::Newtype(opt(pm(5301)))),
            VariantDesc { skip: true, ..v("Gone", "gone", VariantKind::Newtype(pm(5302))) },
            v(
                "StructV",
                "structv",
                VariantKind::Struct {
                    fields: vec![
                        f("m", pm(5303)).multiple(),
                        f("d", pm(5304)).dflt(),
                        f("w", pm(5305)).with(),
                        f("t", pm(5306)).and_then(),
                        f("r", pm(5307)).named("rr").dfn(5307),
                    ],
                    allow_unknown: false,
                },
            ),
        ]),
    ));
    add(recv("S17", Struct(vec![f("s", pm(5801)).skip()])));
    add(recv("E5", Enum(vec![])));
    add(recv("N1", Struct(vec![f("inner", r("S1")), f("opt", opt(r("S1"))), f("d", r("S5")).dflt()])));
    add(recv("N2", Struct(vec![f("n1", r("N1")), f("p", pm(1301))])));
    add(recv("Rec", Struct(vec![f("child", opt(bx(r("Rec")))), f("leaf", opt(pm(1401)))])));
    add(recv("F1", Struct(vec![f("a", pm(1501)), f("rest", r("S1")).flatten()])));
    add(recv("F2", Struct(vec![f("a", pm(1601)), f("rest", r("F1")).flatten()])));
    add(recv("F3", Struct(vec![f("a", pm(1701)), f("rest", hmap(KeyKind::Str, pm(1702))).flatten()])));
    add(recv("F4", Struct(vec![f("a", pm(1801)), f("rest", Ty::DResult(Box::new(r("S1")))).flatten()])));
    add(recv("U1", Unit));
    add(recv("NT1", Newtype(pm(1901))));
    add(recv("NT2", Newtype(r("S1"))));
    add(RecvDesc { from_word: Some(2000), from_none: Some(2000), ..recv("W1", Struct(vec![f("a", opt(pm(2001)))])) });
    add(recv(
        "E1",
        Enum(vec![
            v("Unit", "unit", VariantKind::Unit),
            v("Unit2", "other", VariantKind::Unit),
            VariantDesc { skip: true, ..v("Hidden", "hidden", VariantKind::Unit) },
            v("New", "new", VariantKind::Newtype(pm(2101))),
            v("NewOpt", "new_opt", VariantKind::Newtype(opt(pm(2102)))),
            v("Rec", "rec", VariantKind::Struct { fields: vec![f("a", pm(2103)), f("b", opt(pm(2104)))], allow_unknown: false }),
        ]),
    ));
    add(recv(
        "E2",
        Enum(vec![
            VariantDesc { word: true, ..v("Dflt", "DFLT", VariantKind::Unit) },
            v("Data", "DATA", VariantKind::Struct { fields: vec![f("m", pm(2201)).multiple().named("M")], allow_unknown: true }),
            v("Loose", "LOOSE", VariantKind::Struct { fields: vec![f("a", pm(2202)).named("A")], allow_unknown: true }),
        ]),
    ));
    add(RecvDesc { from_word: Some(2300), ..recv("E3", Enum(vec![v("A", "a", VariantKind::Unit), v("B", "b", VariantKind::Newtype(r("S1")))])) });
    add(recv("EH", Struct(vec![f("e", r("E1")), f("f", opt(r("E2"))), f("g", r("E1")).multiple()])));
    add(recv(
        "WR",
        Struct(vec![
            f("b", bx(pm(2501))),
            f("r", bx(pm(2502))),
            f("res", Ty::DResult(Box::new(pm(2503)))),
            f("rm", Ty::MResult(Box::new(pm(2504)))),
            f("sv", Ty::Spanned(Box::new(pm(2505)))),
            f("wo", Ty::WithOrig(Box::new(pm(2506)))),
            f("ov", opt(Ty::OverridePH(2507))),
            f("sh", opt(Ty::Spanned(Box::new(ph(2508))))),
        ]),
    ));
    add(recv(
        "MP",
        Struct(vec![
            f("hs", hmap(KeyKind::Str, pm(2601))).dflt(),
            f("hi", hmap(KeyKind::Ident, pm(2602))).dflt(),
            f("hp", hmap(KeyKind::Path, pm(2603))).dflt(),
            f("bs", bmap(KeyKind::Str, pm(2604))).dflt(),
            f("bi", bmap(KeyKind::Ident, pm(2605))).dflt(),
            f("hh", hmap(KeyKind::Str, hmap(KeyKind::Str, pm(2606)))).dflt(),
            f("hb", hmap(KeyKind::Str, Ty::Bool)).dflt(),
            f("hu", bmap(KeyKind::Str, Ty::U8)).dflt(),
            f("hph", hmap(KeyKind::Str, ph(2607))).dflt(),
        ]),
    ));
    // built-in conversions, judged for totality only (C07 "every built-in conversion")
    let loose = |names: &[&'static str]| -> Vec<FieldDesc> { names.iter().map(|n| f(n, opt(Ty::Any(n)))).collect() };
    add(recv(
        "L1",
        Struct(loose(&["i8", "i16", "i32", "i64", "i128", "isize", "u8", "u16", "u32", "u64", "u128", "usize", "nzu8", "nzi64", "nzu128", "f32", "f64"])),
    ));
    add(recv(
        "L2",
        Struct(loose(&[
            "string", "char", "bool", "pathbuf", "unit", "abool", "path", "ident", "expr", "ty", "vis", "wherec", "litstr", "litint", "litbool", "lit", "meta",
            "exprarray", "exprpath", "exprrange",
        ])),
    ));
    add(recv(
        "L3",
        Struct(loose(&[
            "vlitstr", "vlitint", "vu8", "vu64", "vwhere", "pathlist", "flag", "identstring", "spbool", "ovu8", "wobool", "punct", "hmss", "rcu8", "arcs", "refb", "rmeta", "dres", "pexpr",
        ])),
    ));
    add(recv(
        "L4",
        Struct(loose(&[
            "litfloat", "litbyte", "litbytestr", "litchar", "literal", "vlitfloat", "vlitbyte", "vlitbytestr", "vlitchar", "vlitbool", "vliteral", "vu16", "vu32", "vusize", "nzu16", "nzu32",
            "nzu64", "nzusize", "nzi8", "nzi16", "nzi32", "nzi128", "nzisize", "rename", "bxstr", "rcflag", "ovbool", "spf64", "wolit",
        ])),
    ));
    add(recv(
        "L5",
        Struct(loose(&[
            "tarray", "tbarefn", "tgroup", "timpl", "tinfer", "tmacro", "tnever", "tparam", "tparen", "tpath", "tptr", "tref", "tslice", "ttrait", "ttuple", "punctexpr", "punctty", "hmsu", "bmil",
            "hmpt", "many", "pstr", "spvl", "sphm", "spmeta", "sppl", "spres", "wovl", "ovpl",
        ])),
    ));
    // keyed collections as root targets (C14); hash maps and their ordered twins share site ids
    for (h, b, key, val) in [
        ("RHS", Some("RBS"), KeyKind::Str, pm(2701)),
        ("RHI", Some("RBI"), KeyKind::Ident, pm(2702)),
        ("RHP", None, KeyKind::Path, pm(2703)),
        ("RHH", Some("RBH"), KeyKind::Str, ph(2705)),
        ("RHB", Some("RBB"), KeyKind::Str, Ty::Bool),
        ("RHU", Some("RBU"), KeyKind::Str, Ty::U8),
    ] {
        add(recv(h, Alias(hmap(key.clone(), val.clone()))));
        if let Some(b) = b {
            add(recv(b, Alias(bmap(key, val))));
        }
    }
    crate::gen_schema::add_meta(&mut m);
    let mut add = |d: RecvDesc| {
        m.insert(d.name, d);
    };
    add(recv("RHN", Alias(hmap(KeyKind::Str, hmap(KeyKind::Str, pm(2704))))));
    add(recv("RBN", Alias(bmap(KeyKind::Str, bmap(KeyKind::Str, pm(2704))))));
    m
}

/// The ordered-map twin of a hash-map root receiver (same key and value types, same site ids).
pub fn btree_twin(name: &str) -> Option<&'static str> {
    let twin = btree_twin_of(name)?;
    if crate::skip_table::skipped().contains(&twin) {
        None
    } else {
        Some(twin)
    }
}

fn btree_twin_of(name: &str) -> Option<&'static str> {
    Some(match name {
        "RHS" => "RBS",
        "RHI" => "RBI",
        "RHH" => "RBH",
        "RHB" => "RBB",
        "RHU" => "RBU",
        "RHN" => "RBN",
        _ => return None,
    })
}

// ------------------------------------------------------------------------------------------------
// element-level receivers (FromDeriveInput / FromField / FromVariant / FromTypeParam / FromAttributes)

#[derive(Clone, Debug, PartialEq)]
pub enum ElemKind {
    DeriveInput,
    Field,
    Variant,
    TypeParam,
    Attributes,
}

#[derive(Clone, Debug, PartialEq)]
pub enum Forward {
    None,
    All,
    Only(Vec<&'static str>),
}

#[derive(Clone, Debug, PartialEq)]
pub enum AttrsField {
    Plain,
    /// `#[darling(with = aw::<site>)] attrs`
    With(u32),
}

#[derive(Clone, Debug, PartialEq)]
pub enum BodyLeaf {
    /// a derived element-level receiver, by name
    Recv(&'static str),
    /// `FP<site>` probe
    Probe(u32),
    /// `()`
    Unit,
}

#[derive(Clone, Debug, PartialEq)]
pub enum GenericsDesc {
    /// `ast::Generics<ast::GenericParam<TR>>`
    Full(&'static str),
    /// `GP<site>`
    Probe(u32),
}

#[derive(Clone, Debug, PartialEq)]
pub enum DataDesc {
    /// `ast::Data<V, F>`
    Data { variant: BodyLeaf, field: BodyLeaf },
    /// `#[darling(with = dw::<site>)] data`
    With(u32),
}

/// Shapes accepted: (named, tuple, newtype, unit)
#[derive(Clone, Debug, PartialEq, Default)]
pub struct ShapeSetDesc {
    pub named: bool,
    pub tuple: bool,
    pub newtype: bool,
    pub unit: bool,
}

impl ShapeSetDesc {
    pub fn is_empty(&self) -> bool {
        !(self.named || self.tuple || self.newtype || self.unit)
    }
    /// shape: "named" | "tuple" | "newtype" | "unit"
    pub fn accepts(&self, shape: &str) -> bool {
        match shape {
            "named" => self.named,
            "tuple" => self.tuple,
            "unit" => self.unit,
            _ => self.newtype || self.tuple,
        }
    }
}

#[derive(Clone, Debug, PartialEq)]
pub enum Supports {
    Any,
    Sets { structs: ShapeSetDesc, enums: ShapeSetDesc },
    /// FromVariant: one set
    Variant(ShapeSetDesc),
}

#[derive(Clone, Debug)]
pub struct ElemDesc {
    pub name: &'static str,
    pub kind: ElemKind,
    pub attr_names: Vec<&'static str>,
    pub forward: Forward,
    pub attrs_field: Option<AttrsField>,
    pub fields: Vec<FieldDesc>,
    pub allow_unknown: bool,
    pub from_ident: Option<u32>,
    pub supports: Option<Supports>,
    pub has_ident: bool,
    pub generics: Option<GenericsDesc>,
    pub data: Option<DataDesc>,
    /// FromVariant `fields: ast::Fields<F>`
    pub variant_fields: Option<BodyLeaf>,
    /// newtype over another element receiver
    pub newtype_of: Option<&'static str>,
    pub container_default: Option<ContainerDefault>,
    pub container_post: Option<(Post, u32)>,
}

pub fn elem(name: &'static str, kind: ElemKind, attr_names: Vec<&'static str>, fields: Vec<FieldDesc>) -> ElemDesc {
    ElemDesc {
        name,
        kind,
        attr_names,
        forward: Forward::None,
        attrs_field: None,
        fields,
        allow_unknown: false,
        from_ident: None,
        supports: None,
        has_ident: false,
        generics: None,
        data: None,
        variant_fields: None,
        newtype_of: None,
        container_default: None,
        container_post: None,
    }
}

pub fn elems() -> &'static BTreeMap<&'static str, ElemDesc> {
    static TABLE: std::sync::OnceLock<BTreeMap<&'static str, ElemDesc>> = std::sync::OnceLock::new();
    TABLE.get_or_init(elem_receivers)
}

pub fn set(named: bool, tuple: bool, newtype: bool, unit: bool) -> ShapeSetDesc {
    ShapeSetDesc { named, tuple, newtype, unit }
}

pub fn elem_receivers() -> BTreeMap<&'static str, ElemDesc> {
    use ElemKind::*;
    let mut m = BTreeMap::new();
    let mut add = |d: ElemDesc| {
        m.insert(d.name, d);
    };
    add(ElemDesc { has_ident: true, ..elem("FR1", Field, vec!["a"], vec![f("p", opt(pm(3101))), f("q", pm(3102))]) });
    add(ElemDesc {
        forward: Forward::All,
        attrs_field: Some(AttrsField::Plain),
        ..elem("FR2", Field, vec!["a", "b"], vec![f("rest", r("S1")).flatten()])
    });
    add(ElemDesc {
        forward: Forward::Only(vec!["doc", "keep"]),
        attrs_field: Some(AttrsField::With(3300)),
        ..elem("FR3", Field, vec!["a"], vec![f("p", opt(pm(3301)))])
    });
    add(ElemDesc { forward: Forward::Only(vec![]), attrs_field: Some(AttrsField::Plain), ..elem("FR4", Field, vec![], vec![]) });
    add(ElemDesc {
        forward: Forward::Only(vec![]),
        attrs_field: Some(AttrsField::Plain),
        ..elem("DI7", DeriveInput, vec!["a"], vec![f("p", opt(pm(4401)))])
    });
    add(ElemDesc {
        has_ident: true,
        variant_fields: Some(BodyLeaf::Recv("FR1")),
        ..elem("VR1", Variant, vec!["a"], vec![f("p", opt(pm(3401)))])
    });
    add(ElemDesc {
        has_ident: true,
        variant_fields: Some(BodyLeaf::Probe(3501)),
        supports: Some(Supports::Variant(set(false, false, true, true))),
        ..elem("VR2", Variant, vec!["a"], vec![f("q", pm(3502))])
    });
    add(ElemDesc { has_ident: true, ..elem("TR1", TypeParam, vec!["a"], vec![f("p", opt(pm(3601)))]) });
    add(ElemDesc {
        has_ident: true,
        generics: Some(GenericsDesc::Full("TR1")),
        data: Some(DataDesc::Data { variant: BodyLeaf::Recv("VR1"), field: BodyLeaf::Recv("FR1") }),
        ..elem("DI1", DeriveInput, vec!["a", "b"], vec![f("s", r("S1")), f("p", opt(pm(3701)))])
    });
    add(ElemDesc {
        forward: Forward::All,
        attrs_field: Some(AttrsField::Plain),
        supports: Some(Supports::Sets { structs: set(true, false, false, false), enums: set(false, false, true, true) }),
        data: Some(DataDesc::Data { variant: BodyLeaf::Recv("VR2"), field: BodyLeaf::Recv("FR2") }),
        ..elem("DI2", DeriveInput, vec!["a"], vec![f("q", pm(3801))])
    });
    add(ElemDesc {
        supports: Some(Supports::Any),
        generics: Some(GenericsDesc::Probe(3901)),
        data: Some(DataDesc::With(3900)),
        ..elem("DI3", DeriveInput, vec!["a"], vec![f("p", opt(pm(3902)))])
    });
    add(ElemDesc { has_ident: true, from_ident: Some(4000), ..elem("DI4", DeriveInput, vec!["a"], vec![f("p", pm(4001)), f("o", opt(pm(4002)))]) });
    add(ElemDesc { newtype_of: Some("DI1"), ..elem("DI5", DeriveInput, vec![], vec![]) });
    add(ElemDesc {
        supports: Some(Supports::Sets { structs: set(false, true, false, false), enums: set(false, false, false, false) }),
        data: Some(DataDesc::Data { variant: BodyLeaf::Unit, field: BodyLeaf::Probe(4201) }),
        ..elem("DI6", DeriveInput, vec!["a"], vec![f("p", opt(pm(4202)))])
    });
    // more of the option space on the outer impls: from_ident on every kind, container default /
    // and_then / map, allow_unknown_fields
    add(ElemDesc {
        has_ident: true,
        from_ident: Some(4500),
        container_post: Some((Post::AndThen, 4510)),
        allow_unknown: true,
        ..elem("FR5", Field, vec!["a"], vec![f("p", pm(4501)), f("o", opt(pm(4502)))])
    });
    add(ElemDesc {
        has_ident: true,
        from_ident: Some(4600),
        variant_fields: Some(BodyLeaf::Probe(4603)),
        ..elem("VR3", Variant, vec!["a"], vec![f("p", pm(4601)), f("o", opt(pm(4602)))])
    });
    add(ElemDesc {
        has_ident: true,
        container_default: Some(ContainerDefault::Trait(4700)),
        container_post: Some((Post::Map, 4710)),
        ..elem("TR2", TypeParam, vec!["a"], vec![f("p", pm(4701)), f("o", opt(pm(4702)))])
    });
    add(ElemDesc {
        has_ident: true,
        allow_unknown: true,
        container_post: Some((Post::AndThen, 4810)),
        generics: Some(GenericsDesc::Full("TR2")),
        data: Some(DataDesc::Data { variant: BodyLeaf::Recv("VR3"), field: BodyLeaf::Recv("FR5") }),
        ..elem("DI8", DeriveInput, vec!["a"], vec![f("p", opt(pm(4801))), f("m", pm(4802)).multiple()])
    });
    add(ElemDesc {
        has_ident: true,
        forward: Forward::All,
        attrs_field: Some(AttrsField::Plain),
        ..elem("VR4", Variant, vec!["a"], vec![f("p", opt(pm(4901)))])
    });
    add(ElemDesc {
        has_ident: true,
        forward: Forward::Only(vec!["doc", "keep"]),
        attrs_field: Some(AttrsField::With(4950)),
        ..elem("TR3", TypeParam, vec!["a"], vec![f("q", pm(4951))])
    });
    let all = set(true, true, true, true);
    add(ElemDesc {
        has_ident: true,
        from_ident: Some(5410),
        allow_unknown: true,
        supports: Some(Supports::Sets { structs: all.clone(), enums: all.clone() }),
        forward: Forward::Only(vec!["doc"]),
        attrs_field: Some(AttrsField::With(5400)),
        data: Some(DataDesc::With(5401)),
        ..elem(
            "DI9",
            DeriveInput,
            vec!["a"],
            vec![f("rest", r("S1")).flatten(), f("m", pm(5402)).multiple().dfn(5402), f("w", pm(5403)).with().and_then()],
        )
    });
    add(ElemDesc {
        has_ident: true,
        forward: Forward::Only(vec!["doc"]),
        attrs_field: Some(AttrsField::With(5500)),
        variant_fields: Some(BodyLeaf::Recv("FR1")),
        container_default: Some(ContainerDefault::Trait(5520)),
        container_post: Some((Post::Map, 5510)),
        ..elem("VR5", Variant, vec!["a"], vec![f("p", pm(5501)), f("m", pm(5502)).multiple()])
    });
    add(ElemDesc {
        allow_unknown: true,
        container_default: Some(ContainerDefault::Trait(5620)),
        container_post: Some((Post::AndThen, 5610)),
        ..elem("AT3", Attributes, vec!["a"], vec![f("p", pm(5601)), f("mw", pm(5602)).multiple().with(), f("t", pm(5603)).dfn(5603).and_then()])
    });
    add(ElemDesc {
        has_ident: true,
        container_default: Some(ContainerDefault::Trait(5720)),
        container_post: Some((Post::Map, 5710)),
        ..elem("FR6", Field, vec!["a"], vec![f("p", pm(5701)), f("t", pm(5702)).dfn(5702).and_then(), f("sk", pm(5703)).skip()])
    });
    add(ElemDesc { newtype_of: Some("AT1"), ..elem("AT4", Attributes, vec![], vec![]) });
    crate::gen_schema::add_elem(&mut m);
    let mut add = |d: ElemDesc| {
        m.insert(d.name, d);
    };
    add(elem(
        "AT1",
        Attributes,
        vec!["a", "b"],
        vec![f("p", pm(4301)), f("m", pm(4302)).multiple(), f("rest", r("S9")).flatten()],
    ));
    add(ElemDesc {
        forward: Forward::Only(vec!["doc"]),
        attrs_field: Some(AttrsField::Plain),
        ..elem("AT2", Attributes, vec!["a"], vec![f("e", opt(r("E1")))])
    });
    m
}


/// Every seam site id that occurs in the corpus (for the "sites never hit" evidence).
pub fn all_sites() -> std::collections::BTreeSet<u32> {
    fn ty_sites(t: &Ty, out: &mut std::collections::BTreeSet<u32>) {
        match t {
            Ty::PM(s) | Ty::PH(s) | Ty::PV(s) | Ty::PE(s) | Ty::OverridePH(s) | Ty::OverridePV(s) => {
                out.insert(*s);
            }
            Ty::Opt(b) | Ty::Boxed(b) | Ty::DResult(b) | Ty::MResult(b) | Ty::Spanned(b) | Ty::WithOrig(b) => ty_sites(b, out),
            Ty::Map { val, .. } => ty_sites(val, out),
            _ => {}
        }
    }
    fn fields_sites(fs: &[FieldDesc], out: &mut std::collections::BTreeSet<u32>) {
        for f in fs {
            ty_sites(&f.ty, out);
        }
    }
    let mut out = std::collections::BTreeSet::new();
    for d in recvs().values() {
        match &d.shape {
            Shape::Struct(fs) => fields_sites(fs, &mut out),
            Shape::Newtype(t) | Shape::Alias(t) => ty_sites(t, &mut out),
            Shape::Enum(vs) => {
                for v in vs {
                    match &v.kind {
                        VariantKind::Newtype(t) => ty_sites(t, &mut out),
                        VariantKind::Struct { fields, .. } => fields_sites(fields, &mut out),
                        VariantKind::Unit => {}
                    }
                }
            }
            Shape::Unit => {}
        }
        if let Some((_, s)) = d.container_post {
            out.insert(s);
        }
        if let Some(ContainerDefault::Trait(s)) | Some(ContainerDefault::Fn(s)) = d.container_default {
            out.insert(s);
        }
        if let Some(s) = d.from_word {
            out.insert(s);
        }
    }
    for d in elems().values() {
        fields_sites(&d.fields, &mut out);
        if let Some(s) = d.from_ident {
            out.insert(s);
        }
        if let Some(AttrsField::With(s)) = d.attrs_field {
            out.insert(s);
        }
        if let Some(GenericsDesc::Probe(s)) = d.generics {
            out.insert(s);
        }
        if let Some(DataDesc::With(s)) = d.data {
            out.insert(s);
        }
        if let Some(DataDesc::Data { field: BodyLeaf::Probe(s), .. }) = d.data {
            out.insert(s);
        }
        if let Some(BodyLeaf::Probe(s)) = d.variant_fields {
            out.insert(s);
        }
        if let Some((_, s)) = d.container_post {
            out.insert(s);
        }
        if let Some(ContainerDefault::Trait(s)) | Some(ContainerDefault::Fn(s)) = d.container_default {
            out.insert(s);
        }
    }
    out
}
