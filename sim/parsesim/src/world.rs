//! The simulated world of simulator B: everything a parse can "ask the outside" for goes through
//! this thread-local - which seam calls fail and how (keyed by *what* is being converted, never by
//! *when*), what `from_none`/`default` sites answer, the hasher state, and the call log.
//!
//! Borrowed only for the duration of one lookup or one log append, never across a call into
//! darling (probes are re-entered recursively by nested receivers).

use std::cell::RefCell;
use std::collections::{BTreeMap, BTreeSet};

use proc_macro2::Span;
use serde::{Deserialize, Serialize};

pub type Pos = (usize, usize); // (line 1-based, column 0-based), as proc-macro2 reports them
pub type Range = (Pos, Pos);

#[derive(Clone, Debug, Serialize, Deserialize, PartialEq)]
pub enum SpanSel {
    /// the path of the item handed to the seam
    OwnPath,
    /// the value / argument part of the item (falls back to the path for bare words)
    OwnValue,
    /// a token somewhere else in the input, by start position
    Remote(Pos),
}

#[derive(Clone, Debug, Serialize, Deserialize, PartialEq)]
pub enum Fault {
    /// `Err(Error::custom("F<key>"))`
    ErrBare,
    /// same, `.with_span(<selected token>)`
    ErrSpanned(SpanSel),
    /// same, `.at("deep")`: an error that already bubbled inside foreign code
    ErrLocated,
    /// `Err(Error::multiple(k leaves "F<key>.<j>"))`; optionally leaf `spanned.0` is pre-spanned
    ErrBundle { k: u8, spanned: Option<(u8, SpanSel)> },
    /// `panic_any(SimPanic { key })`
    Panic,
}

impl Fault {
    pub fn kind_name(&self) -> &'static str {
        match self {
            Fault::ErrBare => "ErrBare",
            Fault::ErrSpanned(_) => "ErrSpanned",
            Fault::ErrLocated => "ErrLocated",
            Fault::ErrBundle { .. } => "ErrBundle",
            Fault::Panic => "Panic",
        }
    }
}

/// What a fault is keyed by.
#[derive(Clone, Debug, Serialize, Deserialize, PartialEq, Eq, PartialOrd, Ord)]
pub enum Key {
    /// the conversion of input item `id` (first seam that is handed the item)
    Item(u32),
    /// the post-processing (`map` / `and_then`) of the value made from item `id`
    Post(u32),
    /// a seam that is not handed an item: (site, hook)
    Site(u32, String),
}

impl Key {
    pub fn label(&self) -> String {
        match self {
            Key::Item(i) => format!("F{}", i),
            Key::Post(i) => format!("FP{}", i),
            Key::Site(s, h) => format!("FS{}{}", s, h),
        }
    }
}

/// The fault-and-environment part of a scenario.
#[derive(Clone, Debug, Default, Serialize, Deserialize, PartialEq)]
pub struct Env {
    pub faults: Vec<(Key, Fault)>,
    /// sites whose `from_none()` answers `Some(..)` instead of `None`
    pub none_some: Vec<u32>,
    /// hasher mode and seed for `SimBuildHasher` (and, through hook H1, `seen_keys`)
    pub hasher_mode: u8,
    pub hasher_seed: u64,
}

#[derive(Clone, Debug, Serialize, Deserialize, PartialEq)]
pub struct Call {
    pub site: u32,
    pub hook: String,
    /// input item the seam was handed, if it was handed one
    pub item: Option<u32>,
    /// source range of what it was handed (None for hooks without a syntax argument)
    pub handed: Option<Range>,
    /// fault kind that fired here, if any
    pub fired: Option<String>,
}

pub struct SimPanic {
    pub key: String,
}

#[derive(Default)]
pub struct World {
    pub faults: BTreeMap<Key, Fault>,
    pub none_some: BTreeSet<u32>,
    pub hasher_mode: u8,
    pub hasher_seed: u64,
    /// start position of every generated item -> item id
    pub items: BTreeMap<Pos, u32>,
    /// per item: (path range, value range)
    pub item_parts: BTreeMap<u32, (Range, Option<Range>)>,
    /// start position -> span of every token of the input (for pre-spanned faults)
    pub tokens: BTreeMap<Pos, Span>,
    pub log: Vec<Call>,
    pub hash_calls: u64,
}

thread_local! {
    pub static WORLD: RefCell<World> = RefCell::new(World::default());
}

pub fn reset(env: &Env, items: BTreeMap<Pos, u32>, item_parts: BTreeMap<u32, (Range, Option<Range>)>, tokens: BTreeMap<Pos, Span>) {
    WORLD.with(|w| {
        let mut w = w.borrow_mut();
        w.faults = env.faults.iter().cloned().collect();
        w.none_some = env.none_some.iter().copied().collect();
        w.hasher_mode = env.hasher_mode;
        w.hasher_seed = env.hasher_seed;
        w.items = items;
        w.item_parts = item_parts;
        w.tokens = tokens;
        w.log.clear();
        w.hash_calls = 0;
    });
    // hook H1: the duplicate-key set inside darling's map conversions hashes with the same state
    #[cfg(darling_verif)]
    darling_core::verif::set_hasher(env.hasher_mode, env.hasher_seed);
}

/// Change only the hasher state (C14.R3 re-runs).
pub fn set_hasher(mode: u8, seed: u64) {
    WORLD.with(|w| {
        let mut w = w.borrow_mut();
        w.hasher_mode = mode;
        w.hasher_seed = seed;
    });
    #[cfg(darling_verif)]
    darling_core::verif::set_hasher(mode, seed);
}

/// Put the scenario's faults back (after a fault-free re-parse), keep the rest.
pub fn reset_faults(env: &Env) {
    WORLD.with(|w| {
        let mut w = w.borrow_mut();
        w.faults = env.faults.iter().cloned().collect();
        w.log.clear();
    })
}

/// Remove every fault (for the recovery re-parse), keep the rest.
pub fn clear_faults() {
    WORLD.with(|w| {
        let mut w = w.borrow_mut();
        w.faults.clear();
        w.log.clear();
    })
}

pub fn take_log() -> Vec<Call> {
    WORLD.with(|w| std::mem::take(&mut w.borrow_mut().log))
}

thread_local! {
    /// global byte range (proc-macro2 fallback source map of this thread) of the input being parsed
    static INPUT_BYTES: std::cell::Cell<(u64, u64)> = const { std::cell::Cell::new((0, 0)) };
}

/// `bytes(lo..hi)` of a fallback span: its place in the thread's source map, unique per parsed text.
pub fn global_bytes(span: Span) -> Option<(u64, u64)> {
    let d = format!("{:?}", span);
    let inner = d.strip_prefix("bytes(")?.strip_suffix(')')?;
    let (a, b) = inner.split_once("..")?;
    Some((a.parse().ok()?, b.parse().ok()?))
}

pub fn set_input_bytes(spans: impl Iterator<Item = Span>) {
    let mut lo = u64::MAX;
    let mut hi = 0u64;
    for s in spans {
        if let Some((a, b)) = global_bytes(s) {
            if (a, b) != (0, 0) {
                lo = lo.min(a);
                hi = hi.max(b);
            }
        }
    }
    INPUT_BYTES.with(|c| c.set(if lo == u64::MAX { (0, 0) } else { (lo, hi) }));
}

/// Does this span point outside the text this run parsed (into an earlier input of the same thread)?
/// `call_site()` (0..0) points nowhere and is not foreign.
pub fn foreign_span(span: Span) -> bool {
    let (lo, hi) = INPUT_BYTES.with(|c| c.get());
    match global_bytes(span) {
        Some((0, 0)) | None => false,
        Some((a, b)) => (lo, hi) != (0, 0) && !(lo <= a && b <= hi),
    }
}

pub fn pos_of(lc: proc_macro2::LineColumn) -> Pos {
    (lc.line, lc.column)
}

pub fn range_of(span: Span) -> Range {
    (pos_of(span.start()), pos_of(span.end()))
}

pub fn item_at(pos: Pos) -> Option<u32> {
    WORLD.with(|w| w.borrow().items.get(&pos).copied())
}

pub fn lookup(key: &Key) -> Option<Fault> {
    WORLD.with(|w| w.borrow().faults.get(key).cloned())
}

pub fn from_none_some(site: u32) -> bool {
    WORLD.with(|w| w.borrow().none_some.contains(&site))
}

pub fn log(call: Call) {
    WORLD.with(|w| w.borrow_mut().log.push(call));
    // every seam call is a scheduler point when this parse runs on a simulated caller thread
    seam_yield();
}

thread_local! {
    static CUR_SCHED: std::cell::Cell<Option<(*const simcore::sched::Sched, usize)>> = std::cell::Cell::new(None);
}

/// Install (or remove) the scheduler of the simulated caller thread running on this OS thread. The
/// pointer must stay valid until it is removed again.
pub fn set_sched(s: Option<(*const simcore::sched::Sched, usize)>) {
    CUR_SCHED.with(|c| c.set(s));
}

/// Scheduler point (no-op outside a group run).
pub fn seam_yield() {
    if let Some((s, tid)) = CUR_SCHED.with(|c| c.get()) {
        unsafe {
            (*s).note_step(tid);
            (*s).yield_point(tid, std::thread::panicking());
        }
    }
}

pub fn token_span(pos: Pos) -> Option<Span> {
    WORLD.with(|w| w.borrow().tokens.get(&pos).copied())
}

pub fn part_ranges(item: u32) -> Option<(Range, Option<Range>)> {
    WORLD.with(|w| w.borrow().item_parts.get(&item).cloned())
}

// --------------------------------------------------------------------------------------------
// hasher seam (E3)

#[derive(Clone, Copy)]
pub struct SimBuildHasher {
    mode: u8,
    seed: u64,
}

impl Default for SimBuildHasher {
    fn default() -> Self {
        WORLD.with(|w| {
            let w = w.borrow();
            SimBuildHasher { mode: w.hasher_mode, seed: w.hasher_seed }
        })
    }
}

pub struct SimHasher {
    mode: u8,
    state: u64,
    seed: u64,
}

impl std::hash::BuildHasher for SimBuildHasher {
    type Hasher = SimHasher;
    fn build_hasher(&self) -> SimHasher {
        SimHasher { mode: self.mode, state: 0xcbf2_9ce4_8422_2325 ^ self.seed, seed: self.seed }
    }
}

impl std::hash::Hasher for SimHasher {
    fn write(&mut self, bytes: &[u8]) {
        for b in bytes {
            self.state ^= *b as u64;
            self.state = self.state.wrapping_mul(0x0000_0100_0000_01B3);
        }
    }
    fn finish(&self) -> u64 {
        match self.mode {
            // seeded FNV
            0 => self.state,
            // every key collides
            1 => self.seed,
            // only two low bits survive: four buckets' worth of information
            2 => self.state & 3,
            // byte-reversed: different iteration order, same equality classes
            _ => self.state.swap_bytes(),
        }
    }
}
