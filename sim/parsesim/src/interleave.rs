//! Caller threads for simulator B (E2): a group of 2-3 parses runs on real threads that hold the
//! baton only between seam calls; every seam call - and the instant a panic starts - is a scheduler
//! point, and the scenario's schedule list decides who continues. darling values are `!Send`, so the
//! parses cannot share anything by type; what this establishes is that nothing is shared *behind*
//! the types either: each parse must come out exactly as the sequential model says, whatever the
//! others are doing (including being parked in the middle of an unwind).

use std::cell::RefCell;
use std::sync::mpsc::{channel, Receiver, Sender};
use std::sync::Arc;

use simcore::sched::Sched;

use crate::run::{self, Judged, Scenario};
use crate::schema;
use crate::world;

struct Job {
    tid: usize,
    sc: Scenario,
    sched: Arc<Sched>,
}

struct Threads {
    txs: Vec<Sender<Job>>,
    rx: Receiver<(usize, Judged)>,
    back: Sender<(usize, Judged)>,
}

impl Threads {
    fn new() -> Self {
        let (back, rx) = channel();
        Threads { txs: Vec::new(), rx, back }
    }
    fn ensure(&mut self, n: usize) {
        while self.txs.len() < n {
            let (tx, jobs) = channel::<Job>();
            let back = self.back.clone();
            std::thread::Builder::new()
                .stack_size(64 << 20)
                .spawn(move || {
                    let mut served = 0u32;
                    while let Ok(job) = jobs.recv() {
                        job.sched.start(job.tid);
                        world::set_sched(Some((Arc::as_ptr(&job.sched), job.tid)));
                        let j = run::run(&job.sc, schema::recvs());
                        world::set_sched(None);
                        job.sched.finish(job.tid);
                        served += 1;
                        if back.send((job.tid, j)).is_err() {
                            break;
                        }
                        let _ = served;
                    }
                })
                .expect("spawn simulated caller thread");
            self.txs.push(tx);
        }
    }
}

thread_local! {
    static THREADS: RefCell<Threads> = RefCell::new(Threads::new());
}

pub struct GroupResult {
    pub judged: Vec<Judged>,
    pub schedule_taken: Vec<u8>,
    pub overlap_events: u64,
}

/// Run the scenarios concurrently under the given schedule; results in scenario order.
pub fn run_group(scs: &[Scenario], schedule: &[u8]) -> GroupResult {
    let n = scs.len();
    let sched = Arc::new(Sched::new(n, schedule.to_vec()));
    let mut out: Vec<Option<Judged>> = (0..n).map(|_| None).collect();
    THREADS.with(|t| {
        let mut t = t.borrow_mut();
        t.ensure(n);
        for (tid, sc) in scs.iter().enumerate() {
            t.txs[tid].send(Job { tid, sc: sc.clone(), sched: sched.clone() }).expect("simulated caller thread alive");
        }
        sched.kickoff();
        for _ in 0..n {
            let (tid, j) = t.rx.recv().expect("a simulated caller thread died outside a parse");
            out[tid] = Some(j);
        }
    });
    let (taken, overlap, _hooks) = sched.report();
    GroupResult { judged: out.into_iter().map(|j| j.expect("all members reported")).collect(), schedule_taken: taken, overlap_events: overlap }
}
