//! Single-fault sweep (crash-point-enumeration style): for every corpus receiver and a few
//! canonical "everything present" inputs, inject exactly one fault of each kind at each seam call in
//! turn. Independent of VERIF_SEED; guarantees every seam site meets every fault kind per check.

use std::collections::BTreeMap;

use simcore::run_seed;

use crate::gen;
use crate::run::{self, Scenario};
use crate::schema::RecvDesc;
use crate::world::{Fault, Key, SpanSel};

pub fn cases(mode: &'static str, recvs: &'static BTreeMap<&'static str, RecvDesc>) -> Vec<Scenario> {
    let mut out = Vec::new();
    // canonical inputs: taken from fixed generator seeds, faults stripped, kept only if the
    // fault-free run is clean (mistakes are welcome: faults next to mistakes are the point)
    let mut per_receiver: BTreeMap<String, usize> = BTreeMap::new();
    let mut i = 0u64;
    while i < 20000 && per_receiver.iter().filter(|(k, n)| **n >= if k.starts_with('G') { 1 } else { 4 }).count() < { let mut names: std::collections::BTreeSet<&str> = gen::receiver_names(mode).into_iter().collect(); if mode != "map" { names.extend(gen::ELEM_RECEIVERS); names.extend(crate::gen_schema::ELEM_NAMES); } names.len() } {
        let mut sc = gen::generate(run_seed(0xC0FFEE, i), mode, recvs);
        i += 1;
        // hand-written receivers: four canonical inputs, every seam call, every fault kind;
        // generated receivers (G*): one input, at most eight seam calls, four fault kinds
        let generated = sc.receiver.starts_with('G');
        let quota = if generated { 1 } else { 4 };
        let n = per_receiver.entry(sc.receiver.clone()).or_insert(0);
        if *n >= quota {
            continue;
        }
        sc.env.faults.clear();
        let base = run::run(&sc, recvs);
        // (inputs with more than a hundred items exist in the seeded runs; as canonical inputs of an
        // every-call-times-every-fault sweep they would cost minutes)
        if base.harness_error.is_some() || base.log.is_empty() || base.log.len() > 48 {
            continue;
        }
        *n += 1;
        // the seam calls of the fault-free run are the injection points
        let mut keys: Vec<Key> = Vec::new();
        for c in &base.log {
            let key = match (c.item, c.hook.as_str()) {
                (Some(id), "from_meta") | (Some(id), "with") | (Some(id), "from_string") | (Some(id), "from_field") | (Some(id), "from_value") | (Some(id), "from_expr") => Some(Key::Item(id)),
                (Some(id), "map") | (Some(id), "and_then") => Some(Key::Post(id)),
                (None, "from_none") | (None, "container_from_none") => None,
                (None, h) => Some(Key::Site(c.site, h.to_string())),
                _ => None,
            };
            if let Some(k) = key {
                if !keys.contains(&k) {
                    keys.push(k);
                }
            }
        }
        let first_other = |k: &Key| -> SpanSel {
            // a remote token: the path of some other item of the input
            let mut pos = None;
            crate::input::for_each_item(&sc.doc, &mut |it| {
                if pos.is_none() && Key::Item(it.id) != *k {
                    pos = Some(it.r_path.0);
                }
            });
            pos.map(SpanSel::Remote).unwrap_or(SpanSel::OwnPath)
        };
        out.push(sc.clone());
        if generated {
            keys.truncate(8);
        }
        for k in keys {
            let mut kinds = vec![
                Fault::ErrBare,
                Fault::ErrSpanned(SpanSel::OwnPath),
                Fault::ErrSpanned(SpanSel::OwnValue),
                Fault::ErrSpanned(first_other(&k)),
                Fault::ErrLocated,
                Fault::ErrBundle { k: 2, spanned: None },
                Fault::ErrBundle { k: 3, spanned: Some((1, first_other(&k))) },
            ];
            if generated {
                kinds = vec![Fault::ErrBare, Fault::ErrSpanned(first_other(&k)), Fault::ErrLocated, Fault::ErrBundle { k: 2, spanned: None }];
            }
            if mode != "strict" {
                kinds.push(Fault::Panic);
            }
            for f in kinds {
                let mut c = sc.clone();
                c.env.faults = vec![(k.clone(), f)];
                out.push(c);
            }
        }
    }
    out
}
