//! The structured input of a run and its rendering to source text. The generator builds an
//! `InputDoc`; `render` turns it into the text that `syn` parses and records the line/column range
//! of every item, path, value and literal, so span expectations are computed, not guessed.

use serde::{Deserialize, Serialize};

use crate::world::{Pos, Range};

pub const ZERO: Range = ((0, 0), (0, 0));

#[derive(Clone, Debug, Serialize, Deserialize, PartialEq)]
pub enum Value {
    Int(String),
    Str(String),
    Bool(bool),
    Char(char),
    /// a non-literal expression that is a path, e.g. `a::b`
    PathExpr(String),
    /// any other expression text (only ever aimed at conversions the model does not predict)
    Raw(String),
}

#[derive(Clone, Debug, Serialize, Deserialize, PartialEq)]
pub enum Form {
    Word,
    NV(Value),
    List(Vec<Nested>),
    /// a list whose tokens are not a valid nested-meta list (still a valid attribute for syn)
    BadList(String),
}

#[derive(Clone, Debug, Serialize, Deserialize, PartialEq)]
pub struct Item {
    pub id: u32,
    /// path text, e.g. `a` or `x::y`
    pub name: String,
    pub form: Form,
    #[serde(default = "zero")]
    pub r_item: Range,
    #[serde(default = "zero")]
    pub r_path: Range,
    #[serde(default)]
    pub r_value: Option<Range>,
    /// delimiter of a list form: 0 `( )`, 1 `[ ]`, 2 `{ }` - all three are meta lists to syn and darling
    #[serde(default)]
    pub delim: u8,
}

fn zero() -> Range {
    ZERO
}

#[derive(Clone, Debug, Serialize, Deserialize, PartialEq)]
pub enum Nested {
    Item(Item),
    /// a bare literal in item position
    Lit {
        text: String,
        #[serde(default = "zero")]
        range: Range,
    },
}

#[derive(Clone, Debug, Serialize, Deserialize, PartialEq)]
pub enum Attr {
    /// `#[<item>]`: word (`#[a]`), name-value (`#[a = 5]`), list (`#[a(..)]`) or raw token list
    Meta(Item),
    /// an attribute nobody asked for: `#[<text>]`
    Foreign(String),
}

#[derive(Clone, Debug, Serialize, Deserialize, PartialEq)]
pub struct FieldDoc {
    /// element id (same id space as items); identified by the start of its type
    pub id: u32,
    pub attrs: Vec<Attr>,
    pub name: Option<String>,
    pub ty: String,
    pub vis: String,
    #[serde(default = "zero")]
    pub r_ty: Range,
}

#[derive(Clone, Debug, Serialize, Deserialize, PartialEq)]
pub enum FieldsDoc {
    Unit,
    Named(Vec<FieldDoc>),
    Tuple(Vec<FieldDoc>),
}

#[derive(Clone, Debug, Serialize, Deserialize, PartialEq)]
pub struct VariantDoc {
    /// element id; identified by the start of its name
    pub id: u32,
    #[serde(default = "zero")]
    pub r_name: Range,
    pub attrs: Vec<Attr>,
    pub name: String,
    pub fields: FieldsDoc,
    pub discriminant: Option<String>,
}

#[derive(Clone, Debug, Serialize, Deserialize, PartialEq)]
pub enum Body {
    Struct(FieldsDoc),
    Enum(Vec<VariantDoc>),
    Union(Vec<FieldDoc>),
}

#[derive(Clone, Debug, Serialize, Deserialize, PartialEq)]
pub struct TParamDoc {
    /// element id; identified by the start of its name
    pub id: u32,
    #[serde(default = "zero")]
    pub r_name: Range,
    pub attrs: Vec<Attr>,
    pub name: String,
    pub bounds: String,
    /// "type" | "lifetime" | "const"
    pub kind: String,
}

#[derive(Clone, Debug, Serialize, Deserialize, PartialEq)]
pub struct InputDoc {
    pub attrs: Vec<Attr>,
    pub ident: String,
    pub generics: Vec<TParamDoc>,
    pub body: Body,
    /// put each top-level item / attribute on its own line
    pub multiline: bool,
    /// `where ...` text ("" = none), placed where the grammar wants it for the body's style
    #[serde(default)]
    pub where_clause: String,
}

pub struct Renderer {
    pub out: String,
    line: usize,
    col: usize,
    multiline: bool,
    indent: usize,
}

impl Renderer {
    fn new(multiline: bool) -> Self {
        Renderer { out: String::new(), line: 1, col: 0, multiline, indent: 0 }
    }
    fn pos(&self) -> Pos {
        (self.line, self.col)
    }
    fn push(&mut self, s: &str) {
        for ch in s.chars() {
            if ch == '\n' {
                self.line += 1;
                self.col = 0;
            } else {
                self.col += 1;
            }
        }
        self.out.push_str(s);
    }
    fn sep(&mut self) {
        if self.multiline {
            self.push("\n");
            for _ in 0..self.indent {
                self.push("  ");
            }
        } else {
            self.push(" ");
        }
    }

    fn value(&mut self, v: &Value) -> Range {
        let a = self.pos();
        match v {
            Value::Int(s) => self.push(s),
            Value::Str(s) => {
                self.push("\"");
                self.push(s);
                self.push("\"");
            }
            Value::Bool(b) => self.push(if *b { "true" } else { "false" }),
            Value::Char(c) => self.push(&format!("'{}'", c)),
            Value::PathExpr(p) | Value::Raw(p) => self.push(p),
        }
        (a, self.pos())
    }

    fn nested_list(&mut self, items: &mut [Nested]) {
        self.indent += 1;
        let n = items.len();
        for (i, it) in items.iter_mut().enumerate() {
            if self.multiline && n > 1 {
                self.sep();
            }
            match it {
                Nested::Item(item) => self.item(item),
                Nested::Lit { text, range } => {
                    let a = self.pos();
                    self.push(text);
                    *range = (a, self.pos());
                }
            }
            if i + 1 < n {
                self.push(",");
                if !self.multiline {
                    self.push(" ");
                }
            }
        }
        self.indent -= 1;
    }

    fn item(&mut self, item: &mut Item) {
        let a = self.pos();
        self.push(&item.name);
        item.r_path = (a, self.pos());
        match &mut item.form {
            Form::Word => {
                item.r_value = None;
            }
            Form::NV(v) => {
                self.push(" = ");
                let v = v.clone();
                item.r_value = Some(self.value(&v));
            }
            Form::List(items) => {
                let (open, close) = [("(", ")"), ("[", "]"), ("{", "}")][(item.delim % 3) as usize];
                let b = self.pos();
                self.push(open);
                self.nested_list(items);
                self.push(close);
                item.r_value = Some((b, self.pos()));
            }
            Form::BadList(raw) => {
                let (open, close) = [("(", ")"), ("[", "]"), ("{", "}")][(item.delim % 3) as usize];
                let b = self.pos();
                self.push(open);
                let raw = raw.clone();
                self.push(&raw);
                self.push(close);
                item.r_value = Some((b, self.pos()));
            }
        }
        item.r_item = (a, self.pos());
    }

    fn attr(&mut self, a: &mut Attr) {
        self.push("#[");
        match a {
            Attr::Meta(item) => self.item(item),
            Attr::Foreign(text) => self.push(text),
        }
        self.push("]");
        self.sep();
    }

    fn attrs(&mut self, attrs: &mut [Attr]) {
        for a in attrs {
            self.attr(a);
        }
    }

    fn field(&mut self, f: &mut FieldDoc) {
        self.attrs(&mut f.attrs);
        if !f.vis.is_empty() {
            self.push(&f.vis);
            self.push(" ");
        }
        if let Some(n) = &f.name {
            self.push(n);
            self.push(": ");
        }
        let a = self.pos();
        self.push(&f.ty);
        f.r_ty = (a, self.pos());
    }

    fn fields(&mut self, f: &mut FieldsDoc) {
        match f {
            FieldsDoc::Unit => {}
            FieldsDoc::Named(fs) => {
                self.push(" {");
                self.indent += 1;
                for fd in fs.iter_mut() {
                    self.sep();
                    self.field(fd);
                    self.push(",");
                }
                self.indent -= 1;
                self.sep();
                self.push("}");
            }
            FieldsDoc::Tuple(fs) => {
                self.push("(");
                let n = fs.len();
                for (i, fd) in fs.iter_mut().enumerate() {
                    self.field(fd);
                    if i + 1 < n {
                        self.push(", ");
                    }
                }
                self.push(")");
            }
        }
    }
}

/// Render the document; fills in every range inside `doc`.
pub fn render(doc: &mut InputDoc) -> String {
    let mut r = Renderer::new(doc.multiline);
    r.attrs(&mut doc.attrs);
    let kw = match doc.body {
        Body::Struct(_) => "struct",
        Body::Enum(_) => "enum",
        Body::Union(_) => "union",
    };
    r.push(kw);
    r.push(" ");
    r.push(&doc.ident.clone());
    if !doc.generics.is_empty() {
        r.push("<");
        let n = doc.generics.len();
        for (i, g) in doc.generics.iter_mut().enumerate() {
            r.attrs(&mut g.attrs);
            match g.kind.as_str() {
                // `bounds` is the text after the name: bounds, or `= default` when it starts with '='
                "lifetime" => {
                    let a = r.pos();
                    r.push("'");
                    r.push(&g.name.clone());
                    g.r_name = (a, r.pos());
                    if !g.bounds.is_empty() {
                        r.push(": ");
                        r.push(&g.bounds.clone());
                    }
                }
                "const" => {
                    r.push("const ");
                    let a = r.pos();
                    r.push(&g.name.clone());
                    g.r_name = (a, r.pos());
                    r.push(": usize");
                    if !g.bounds.is_empty() {
                        r.push(" ");
                        r.push(&g.bounds.clone());
                    }
                }
                _ => {
                    let a = r.pos();
                    r.push(&g.name.clone());
                    g.r_name = (a, r.pos());
                    if g.bounds.starts_with('=') {
                        r.push(" ");
                        r.push(&g.bounds.clone());
                    } else if !g.bounds.is_empty() {
                        r.push(": ");
                        r.push(&g.bounds.clone());
                    }
                }
            }
            if i + 1 < n {
                r.push(", ");
            }
        }
        r.push(">");
    }
    let wh = doc.where_clause.clone();
    let tuple_struct = matches!(&doc.body, Body::Struct(FieldsDoc::Tuple(_)));
    if !wh.is_empty() && !tuple_struct {
        r.push(" ");
        r.push(&wh);
    }
    match &mut doc.body {
        Body::Struct(f) => {
            let semi = !matches!(f, FieldsDoc::Named(_));
            r.fields(f);
            if semi {
                if !wh.is_empty() && tuple_struct {
                    r.push(" ");
                    r.push(&wh);
                }
                r.push(";");
            }
        }
        Body::Enum(vs) => {
            r.push(" {");
            r.indent += 1;
            for v in vs.iter_mut() {
                r.sep();
                r.attrs(&mut v.attrs);
                let a = r.pos();
                r.push(&v.name.clone());
                v.r_name = (a, r.pos());
                r.fields(&mut v.fields);
                if let Some(d) = &v.discriminant {
                    r.push(" = ");
                    r.push(d);
                }
                r.push(",");
            }
            r.indent -= 1;
            r.sep();
            r.push("}");
        }
        Body::Union(fs) => {
            let mut named = FieldsDoc::Named(std::mem::take(fs));
            r.fields(&mut named);
            if let FieldsDoc::Named(v) = named {
                *fs = v;
            }
        }
    }
    r.push("\n");
    r.out
}

/// Visit every item of the document (all attributes, at every depth).
pub fn for_each_item<'a>(doc: &'a InputDoc, f: &mut dyn FnMut(&'a Item)) {
    fn nested<'a>(ns: &'a [Nested], f: &mut dyn FnMut(&'a Item)) {
        for n in ns {
            if let Nested::Item(it) = n {
                f(it);
                if let Form::List(inner) = &it.form {
                    nested(inner, f);
                }
            }
        }
    }
    fn attrs<'a>(as_: &'a [Attr], f: &mut dyn FnMut(&'a Item)) {
        for a in as_ {
            if let Attr::Meta(it) = a {
                f(it);
                if let Form::List(inner) = &it.form {
                    nested(inner, f);
                }
            }
        }
    }
    fn fields<'a>(fd: &'a FieldsDoc, f: &mut dyn FnMut(&'a Item)) {
        match fd {
            FieldsDoc::Unit => {}
            FieldsDoc::Named(fs) | FieldsDoc::Tuple(fs) => fs.iter().for_each(|x| attrs(&x.attrs, f)),
        }
    }
    attrs(&doc.attrs, f);
    for g in &doc.generics {
        attrs(&g.attrs, f);
    }
    match &doc.body {
        Body::Struct(fd) => fields(fd, f),
        Body::Enum(vs) => {
            for v in vs {
                attrs(&v.attrs, f);
                fields(&v.fields, f);
            }
        }
        Body::Union(fs) => fs.iter().for_each(|x| attrs(&x.attrs, f)),
    }
}

pub fn contains(outer: Range, inner: Range) -> bool {
    outer.0 <= inner.0 && inner.1 <= outer.1
}

/// Visit every body element (field, variant, generic parameter): (id, identifying range).
pub fn for_each_element(doc: &InputDoc, f: &mut dyn FnMut(u32, Range)) {
    fn fields(fd: &FieldsDoc, f: &mut dyn FnMut(u32, Range)) {
        match fd {
            FieldsDoc::Unit => {}
            FieldsDoc::Named(fs) | FieldsDoc::Tuple(fs) => fs.iter().for_each(|x| f(x.id, x.r_ty)),
        }
    }
    for g in &doc.generics {
        f(g.id, g.r_name);
    }
    match &doc.body {
        Body::Struct(fd) => fields(fd, f),
        Body::Enum(vs) => {
            for v in vs {
                f(v.id, v.r_name);
                fields(&v.fields, f);
            }
        }
        Body::Union(fs) => fs.iter().for_each(|x| f(x.id, x.r_ty)),
    }
}
