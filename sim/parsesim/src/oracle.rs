//! Oracle: rules C02.*, C03.*, C07.*, C14.* over (expected, observed, call log).

use serde::{Deserialize, Serialize};

use crate::input::contains;
use crate::model::{Leaf, Msg, Seg, SpanExp};
use crate::world::Range;

#[derive(Clone, Debug, Serialize, Deserialize, PartialEq)]
pub struct ObsLeaf {
    /// `Display` of the flattened leaf
    pub text: String,
    /// message part (without ` at <path>`)
    pub msg: String,
    pub path: Vec<String>,
    /// `explicit_span()` as line/column range
    pub span: Option<Range>,
}

#[derive(Clone, Debug, Serialize, Deserialize, PartialEq)]
pub struct Failure {
    pub rule: String,
    pub detail: String,
}

pub fn fail(rule: &str, detail: impl Into<String>) -> Failure {
    Failure { rule: rule.to_string(), detail: detail.into() }
}

pub fn split_display(text: &str) -> (String, Vec<String>) {
    match text.rsplit_once(" at ") {
        Some((m, p)) if !p.is_empty() && !p.contains(' ') => (m.to_string(), p.split('/').map(|s| s.to_string()).collect()),
        _ => (text.to_string(), Vec::new()),
    }
}

fn msg_matches(m: &Msg, s: &str) -> bool {
    match m {
        Msg::Exact(e) => e == s,
        Msg::Prefix(p) => s.starts_with(p.as_str()),
        Msg::Any => true,
    }
}

fn seg_matches(seg: &Seg, s: &str) -> bool {
    match seg {
        Seg::Name(n) => n == s,
        Seg::Indexed(n) => {
            s.strip_prefix(n.as_str())
                .and_then(|r| r.strip_prefix('['))
                .and_then(|r| r.strip_suffix(']'))
                .map(|d| !d.is_empty() && d.chars().all(|c| c.is_ascii_digit()))
                .unwrap_or(false)
        }
    }
}

fn path_matches(p: &[Seg], o: &[String]) -> bool {
    p.len() == o.len() && p.iter().zip(o).all(|(a, b)| seg_matches(a, b))
}

pub fn span_matches(e: &SpanExp, o: &Option<Range>) -> bool {
    match (e, o) {
        // the property claims nothing about leaves that may be span-less
        (SpanExp::Unset, _) | (SpanExp::Unchecked, _) => true,
        (SpanExp::Exact(r), Some(x)) => r == x,
        (SpanExp::Within(r), Some(x)) => contains(*r, *x) && x.0 != x.1,
        (_, None) => false,
    }
}

fn span_rule(l: &Leaf) -> &'static str {
    match (l.kind, &l.span) {
        ("fault", SpanExp::Exact(_)) => "C03.R1",
        ("fault", _) => "C03.R2",
        _ => "C03.R5",
    }
}

fn show_leaf(l: &Leaf) -> String {
    format!("{:?} path={:?} span={:?} ({})", l.msg, l.path, l.span, l.kind)
}

/// One-to-one correspondence between expected and observed leaves.
pub fn check_leaves(expected: &[Leaf], observed: &[ObsLeaf]) -> Vec<Failure> {
    let mut fails = Vec::new();
    let mut used = vec![false; observed.len()];
    let mut matched = vec![false; expected.len()];
    // predictable messages first (all three passes), so that `Msg::Any` cannot steal a leaf
    let specific: Vec<usize> = (0..expected.len()).filter(|i| !matches!(expected[*i].msg, Msg::Any)).collect();
    let vague: Vec<usize> = (0..expected.len()).filter(|i| matches!(expected[*i].msg, Msg::Any)).collect();
    let order: Vec<usize> = specific.iter().chain(vague.iter()).copied().collect();
    for group in [&specific, &vague] {
        // pass 1: everything agrees
        for &i in group.iter() {
            let e = &expected[i];
            if let Some(j) = (0..observed.len()).find(|&j| {
                !used[j] && msg_matches(&e.msg, &observed[j].msg) && path_matches(&e.path, &observed[j].path) && span_matches(&e.span, &observed[j].span)
            }) {
                used[j] = true;
                matched[i] = true;
            }
        }
        // pass 2: message and location agree, span does not
        for &i in group.iter() {
            if matched[i] {
                continue;
            }
            let e = &expected[i];
            if let Some(j) = (0..observed.len()).find(|&j| !used[j] && msg_matches(&e.msg, &observed[j].msg) && path_matches(&e.path, &observed[j].path)) {
                used[j] = true;
                matched[i] = true;
                fails.push(fail(
                    span_rule(e),
                    format!("leaf `{}` has span {:?}, expected {:?} (kind {})", observed[j].text, observed[j].span, e.span, e.kind),
                ));
            }
        }
        // pass 3: message agrees, location does not
        for &i in group.iter() {
            if matched[i] {
                continue;
            }
            let e = &expected[i];
            if let Some(j) = (0..observed.len()).find(|&j| !used[j] && !matches!(e.msg, Msg::Any) && msg_matches(&e.msg, &observed[j].msg)) {
                used[j] = true;
                matched[i] = true;
                fails.push(fail("C02.R4", format!("leaf `{}` is located at {:?}, expected {:?}", observed[j].text, observed[j].path, e.path)));
            }
        }
    }
    for &i in &order {
        if !matched[i] {
            fails.push(fail("C02.R2", format!("expected leaf not reported: {}", show_leaf(&expected[i]))));
        }
    }
    for (j, o) in observed.iter().enumerate() {
        if !used[j] {
            fails.push(fail("C02.R2", format!("reported leaf corresponds to no mistake or fault: `{}` span={:?}", o.text, o.span)));
        }
    }
    fails
}
