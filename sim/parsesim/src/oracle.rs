//! Oracle: rules C02.*, C03.*, C07.*, C14.* over (expected, observed, call log).

use serde::{Deserialize, Serialize};

use crate::input::contains;
use crate::model::{Leaf, Msg, Seg, SpanExp};
use crate::world::Range;

#[derive(Clone, Debug, Serialize, Deserialize, PartialEq)]
pub struct ObsLeaf {
    /// `Display` of the flattened leaf
    pub text: String,
    /// message part (without ` at <path>`)
    pub msg: String,
    pub path: Vec<String>,
    /// `explicit_span()` as line/column range
    pub span: Option<Range>,
}

#[derive(Clone, Debug, Serialize, Deserialize, PartialEq)]
pub struct Failure {
    pub rule: String,
    pub detail: String,
}

pub fn fail(rule: &str, detail: impl Into<String>) -> Failure {
    Failure { rule: rule.to_string(), detail: detail.into() }
}

pub fn split_display(text: &str) -> (String, Vec<String>) {
    match text.rsplit_once(" at ") {
        Some((m, p)) if !p.is_empty() && !p.contains(' ') => (m.to_string(), p.split('/').map(|s| s.to_string()).collect()),
        _ => (text.to_string(), Vec::new()),
    }
}

fn msg_matches(m: &Msg, s: &str) -> bool {
    match m {
        Msg::Exact(e) => e == s,
        Msg::Prefix(p) => s.starts_with(p.as_str()),
        Msg::Contains(p) => s.contains(p.as_str()),
        Msg::Any => true,
    }
}

fn seg_matches(seg: &Seg, s: &str) -> bool {
    match seg {
        Seg::Name(n) => n == s,
        // `name[<index>]` today; how the occurrence is marked is darling's business
        Seg::Indexed(n) => s.starts_with(n.as_str()) && !s[n.len()..].contains('/') && (s.len() == n.len() || !s[n.len()..].starts_with(|c: char| c.is_alphanumeric() || c == '_')),
    }
}

fn path_matches(p: &[Seg], o: &[String]) -> bool {
    p.len() == o.len() && p.iter().zip(o).all(|(a, b)| seg_matches(a, b))
}

pub fn span_matches(e: &SpanExp, o: &Option<Range>) -> bool {
    match (e, o) {
        // the property claims nothing about leaves that may be span-less
        (SpanExp::Unset, _) | (SpanExp::Unchecked, _) => true,
        (SpanExp::Exact(r), Some(x)) => r == x,
        (SpanExp::Within(r), Some(x)) => contains(*r, *x) && x.0 != x.1,
        (_, None) => false,
    }
}

fn span_rule(l: &Leaf) -> &'static str {
    match (l.kind, &l.span) {
        ("fault", SpanExp::Exact(_)) => "C03.R1",
        ("fault", _) => "C03.R2",
        _ => "C03.R5",
    }
}

fn show_leaf(l: &Leaf) -> String {
    format!("{:?} path={:?} span={:?} ({})", l.msg, l.path, l.span, l.kind)
}

/// Maximum bipartite matching (augmenting paths) between the still-unmatched expected leaves `es`
/// and the still-unused observed leaves, over the edges `ok(e, o)`. Greedy assignment would let a
/// leaf with a vague expectation take an observed leaf that a stricter one needs; a maximum
/// matching finds the perfect assignment whenever one exists.
fn max_match(es: &[usize], n_obs: usize, used: &[bool], ok: &dyn Fn(usize, usize) -> bool) -> Vec<(usize, usize)> {
    let mut owner: Vec<Option<usize>> = vec![None; n_obs]; // observed -> index into es
    fn try_assign(k: usize, es: &[usize], n_obs: usize, used: &[bool], ok: &dyn Fn(usize, usize) -> bool, owner: &mut Vec<Option<usize>>, seen: &mut Vec<bool>) -> bool {
        for j in 0..n_obs {
            if used[j] || seen[j] || !ok(es[k], j) {
                continue;
            }
            seen[j] = true;
            let free = match owner[j] {
                None => true,
                Some(k2) => try_assign(k2, es, n_obs, used, ok, owner, seen),
            };
            if free {
                owner[j] = Some(k);
                return true;
            }
        }
        false
    }
    for k in 0..es.len() {
        let mut seen = vec![false; n_obs];
        try_assign(k, es, n_obs, used, ok, &mut owner, &mut seen);
    }
    owner.iter().enumerate().filter_map(|(j, o)| o.map(|k| (es[k], j))).collect()
}

/// One-to-one correspondence between expected and observed leaves.
pub fn check_leaves(expected: &[Leaf], observed: &[ObsLeaf]) -> Vec<Failure> {
    check_leaves_tolerating(expected, observed, &[])
}

/// `tolerated`: ranges inside which additional leaves are not counted as invented (repeated
/// occurrences of a single-valued field, whose value may or may not be converted).
pub fn check_leaves_tolerating(expected: &[Leaf], observed: &[ObsLeaf], tolerated: &[Range]) -> Vec<Failure> {
    let mut fails = Vec::new();
    let mut used = vec![false; observed.len()];
    let mut matched = vec![false; expected.len()];
    let n = observed.len();

    // pass 1: message, location and span all agree
    let all: Vec<usize> = (0..expected.len()).collect();
    let full = |i: usize, j: usize| {
        msg_matches(&expected[i].msg, &observed[j].msg) && path_matches(&expected[i].path, &observed[j].path) && span_matches(&expected[i].span, &observed[j].span)
    };
    for (i, j) in max_match(&all, n, &used, &full) {
        matched[i] = true;
        used[j] = true;
    }
    // pass 2: message and location agree, the span does not
    let rest: Vec<usize> = (0..expected.len()).filter(|i| !matched[*i]).collect();
    let msg_path = |i: usize, j: usize| msg_matches(&expected[i].msg, &observed[j].msg) && path_matches(&expected[i].path, &observed[j].path);
    for (i, j) in max_match(&rest, n, &used, &msg_path) {
        matched[i] = true;
        used[j] = true;
        let e = &expected[i];
        fails.push(fail(span_rule(e), format!("leaf `{}` has span {:?}, expected {:?} (kind {})", observed[j].text, observed[j].span, e.span, e.kind)));
    }
    // pass 3: the message agrees (for leaves whose message is predicted), the location does not
    let rest: Vec<usize> = (0..expected.len()).filter(|i| !matched[*i] && !matches!(expected[*i].msg, Msg::Any)).collect();
    let msg_only = |i: usize, j: usize| msg_matches(&expected[i].msg, &observed[j].msg);
    for (i, j) in max_match(&rest, n, &used, &msg_only) {
        matched[i] = true;
        used[j] = true;
        fails.push(fail("C02.R4", format!("leaf `{}` is located at {:?}, expected {:?}", observed[j].text, observed[j].path, expected[i].path)));
    }
    for i in 0..expected.len() {
        if !matched[i] {
            fails.push(fail("C02.R2", format!("expected leaf not reported: {}", show_leaf(&expected[i]))));
        }
    }
    for (j, o) in observed.iter().enumerate() {
        if !used[j] {
            if let Some(sp) = o.span {
                if tolerated.iter().any(|r| contains(*r, sp)) {
                    continue;
                }
            }
            fails.push(fail("C02.R2", format!("reported leaf corresponds to no mistake or fault: `{}` span={:?}", o.text, o.span)));
        }
    }
    fails
}
