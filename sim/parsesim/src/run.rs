//! One run of simulator B: render the input, parse it with syn, hand it to the real derived parser
//! inside the simulated world, and judge what came back.

use std::any::Any;
use std::collections::BTreeMap;
use std::panic::{catch_unwind, AssertUnwindSafe};

use proc_macro2::{Span, TokenStream, TokenTree};
use quote::ToTokens;
use serde::{Deserialize, Serialize};

use crate::corpus::{self, MetaEntry};
use crate::input::{self, Attr, InputDoc};
use crate::model::{Abort, Conv, Leaf, Model};
use crate::oracle::{self, fail, Failure, ObsLeaf};
use crate::probes::Val;
use crate::schema::RecvDesc;
use crate::world::{self, Call, Env, Pos, Range, SimPanic};

#[derive(Clone, Debug, Serialize, Deserialize, PartialEq)]
pub enum Entry {
    /// `T::from_meta(&attrs[0].meta)`
    FromMeta,
    /// `T::from_list(parse_meta_list(attrs[0] tokens))`
    FromList,
    FromNone,
    FromWord,
    /// element-level entry points
    DeriveInput,
    Attributes,
    Field(usize),
    Variant(usize),
    TypeParam(usize),
}

#[derive(Clone, Debug, Serialize, Deserialize, PartialEq)]
pub struct Scenario {
    pub receiver: String,
    pub entry: Entry,
    pub doc: InputDoc,
    pub env: Env,
    /// generator mode that produced it: "strict" (C02/C03), "wild" (C07), "map" (C14)
    pub mode: String,
}

#[derive(Clone, Debug, Serialize, Deserialize, PartialEq)]
pub enum Outcome {
    Ok(Option<Val>),
    Err { len: usize, leaves: Vec<ObsLeaf> },
    /// unwound with the simulator's own payload
    SimPanic(String),
    /// unwound with something else (message)
    Panic(String),
}

#[derive(Clone, Debug, Serialize, Deserialize)]
pub struct Judged {
    pub failures: Vec<Failure>,
    pub outcome: Outcome,
    pub expected: String,
    pub log: Vec<Call>,
    pub source: String,
    pub fired: Vec<(String, String)>,
    pub mistakes: Vec<String>,
    pub seam_calls: usize,
    pub harness_error: Option<String>,
}

thread_local! {
    static LAST_PANIC: std::cell::RefCell<Option<String>> = std::cell::RefCell::new(None);
    /// true while the real parser runs under catch_unwind; any other panic is a harness bug and is printed
    static IN_PARSE: std::cell::Cell<bool> = std::cell::Cell::new(false);
}

struct InParse;
impl InParse {
    fn enter() -> Self {
        IN_PARSE.with(|f| f.set(true));
        InParse
    }
}
impl Drop for InParse {
    fn drop(&mut self) {
        IN_PARSE.with(|f| f.set(false));
    }
}

/// Installed once per process: silent, records message and location for the thread.
pub fn install_panic_hook() {
    std::panic::set_hook(Box::new(|info| {
        let loc = info.location().map(|l| format!("{}:{}", l.file(), l.line())).unwrap_or_default();
        let msg = if let Some(s) = info.payload().downcast_ref::<&str>() {
            (*s).to_string()
        } else if let Some(s) = info.payload().downcast_ref::<String>() {
            s.clone()
        } else if let Some(s) = info.payload().downcast_ref::<SimPanic>() {
            format!("SimPanic({})", s.key)
        } else {
            "<non-string payload>".to_string()
        };
        if !IN_PARSE.with(|f| f.get()) {
            eprintln!("HARNESS PANIC (outside a simulated parse): {} @ {}", msg, loc);
        }
        LAST_PANIC.with(|p| *p.borrow_mut() = Some(format!("{} @ {}", msg, loc)));
        // the instant a panic starts is a scheduler point for simulated caller threads
        if IN_PARSE.with(|f| f.get()) {
            world::seam_yield();
        }
    }));
}

fn payload_outcome(p: Box<dyn Any + Send>) -> Outcome {
    if let Some(s) = p.downcast_ref::<SimPanic>() {
        return Outcome::SimPanic(s.key.clone());
    }
    let detail = LAST_PANIC.with(|p| p.borrow_mut().take()).unwrap_or_default();
    if let Some(s) = p.downcast_ref::<&str>() {
        Outcome::Panic(format!("{} [{}]", s, detail))
    } else if let Some(s) = p.downcast_ref::<String>() {
        Outcome::Panic(format!("{} [{}]", s, detail))
    } else {
        Outcome::Panic(format!("<non-string payload> [{}]", detail))
    }
}

fn collect_tokens(ts: TokenStream, out: &mut BTreeMap<Pos, Span>) {
    for tt in ts {
        match tt {
            TokenTree::Group(g) => {
                out.entry(world::pos_of(g.span_open().start())).or_insert(g.span_open());
                collect_tokens(g.stream(), out);
            }
            other => {
                let sp = other.span();
                out.entry(world::pos_of(sp.start())).or_insert(sp);
            }
        }
    }
}

fn observe_error(e: &darling::Error) -> (usize, Vec<ObsLeaf>) {
    let len = e.len();
    let leaves = e
        .clone()
        .flatten()
        .into_iter()
        .map(|l| {
            let text = l.to_string();
            let (msg, path) = oracle::split_display(&text);
            ObsLeaf { text, msg, path, span: l.explicit_span().map(world::range_of) }
        })
        .collect();
    (len, leaves)
}

/// Properties of the error value itself that C03 states: flattening twice changes nothing, and
/// conversion to compiler diagnostics gives one diagnostic per leaf with the leaf's span.
fn check_error_value(e: &darling::Error, leaves: &[ObsLeaf], out: &mut Vec<Failure>) {
    // flatten twice, conversion to syn::Error: darling code; a panic in it is reported, not propagated
    let mut inner: Vec<Failure> = Vec::new();
    let r = {
        let _g = InParse::enter();
        catch_unwind(AssertUnwindSafe(|| check_error_value_unguarded(e, leaves, &mut inner)))
    };
    out.extend(inner);
    if let Err(p) = r {
        let what = match payload_outcome(p) {
            Outcome::Panic(m) => m,
            other => short(&other),
        };
        for rule in ["C03.R7", "C07.R1", "C02.R3"] {
            out.push(fail(rule, format!("an operation on the returned error value (flatten twice / conversion to compiler diagnostics) panicked: {}", what)));
        }
    }
}

fn check_error_value_unguarded(e: &darling::Error, leaves: &[ObsLeaf], out: &mut Vec<Failure>) {
    let twice: Vec<(String, Option<Range>)> =
        e.clone().flatten().flatten().into_iter().map(|l| (l.to_string(), l.explicit_span().map(world::range_of))).collect();
    let once: Vec<(String, Option<Range>)> = leaves.iter().map(|l| (l.text.clone(), l.span)).collect();
    if once != twice {
        out.push(fail("C03.R7", format!("flatten twice differs from flatten once: {:?} vs {:?}", once, twice)));
    }
    // C03.R9: an explicit span belongs to the text this run parsed, never to an earlier input of the thread
    for l in e.clone().flatten() {
        if let Some(sp) = l.explicit_span() {
            if world::foreign_span(sp) {
                out.push(fail("C03.R9", format!("leaf `{}` carries a span ({:?}) that is not part of this input: it belongs to something parsed earlier on this thread", l, sp)));
            }
        }
    }
    let syn_errs: Vec<(String, Range)> = syn::Error::from(e.clone()).into_iter().map(|s| (s.to_string(), world::range_of(s.span()))).collect();
    if syn_errs.len() != leaves.len() {
        out.push(fail("C03.R7", format!("{} compiler diagnostics for {} leaves", syn_errs.len(), leaves.len())));
        return;
    }
    for (l, (smsg, srange)) in leaves.iter().zip(&syn_errs) {
        match l.span {
            Some(r) => {
                if *srange != r {
                    out.push(fail("C03.R7", format!("diagnostic for `{}` has span {:?}, the leaf has {:?}", l.text, srange, r)));
                }
                if *smsg != l.msg {
                    out.push(fail("C03.R7", format!("diagnostic message `{}` for spanned leaf `{}`", smsg, l.text)));
                }
            }
            None => {
                // span-less: the rendered message carries the location path
                if *smsg != l.text {
                    out.push(fail("C03.R6", format!("span-less leaf `{}` rendered as `{}` (location path must be included)", l.text, smsg)));
                }
            }
        }
    }
}

pub fn first_meta(di: &syn::DeriveInput) -> Option<&syn::Meta> {
    di.attrs.first().map(|a| &a.meta)
}

fn nth_field(di: &syn::DeriveInput, i: usize) -> Option<&syn::Field> {
    match &di.data {
        syn::Data::Struct(s) => s.fields.iter().nth(i),
        _ => None,
    }
}

fn execute_elem(sc: &Scenario, di: &syn::DeriveInput) -> Result<(Outcome, Option<darling::Error>), String> {
    use corpus::ElemInput;
    let input = match &sc.entry {
        Entry::DeriveInput => ElemInput::DeriveInput(di),
        Entry::Attributes => ElemInput::Attributes(&di.attrs),
        Entry::Field(i) => ElemInput::Field(nth_field(di, *i).ok_or("no such field")?),
        Entry::Variant(i) => match &di.data {
            syn::Data::Enum(e) => ElemInput::Variant(e.variants.iter().nth(*i).ok_or("no such variant")?),
            _ => return Err("variant entry needs an enum".into()),
        },
        Entry::TypeParam(i) => match di.generics.params.iter().nth(*i) {
            Some(syn::GenericParam::Type(t)) => ElemInput::TypeParam(t),
            _ => return Err("type-param entry needs a type parameter".into()),
        },
        _ => unreachable!(),
    };
    let r = {
        let _g = InParse::enter();
        catch_unwind(AssertUnwindSafe(|| corpus::run_elem_receiver(&sc.receiver, &input)))
    };
    Ok(match r {
        Ok(None) => return Err(format!("unknown element receiver {} for {:?}", sc.receiver, sc.entry)),
        Ok(Some(Ok(v))) => (Outcome::Ok(Some(v)), None),
        Ok(Some(Err(e))) => {
            // reading the returned error (len, flatten, Display) is darling code too: a panic there is
            // the parse's panic, not the harness's
            let seen = {
                let _g = InParse::enter();
                catch_unwind(AssertUnwindSafe(|| observe_error(&e)))
            };
            match seen {
                Ok((len, leaves)) => (Outcome::Err { len, leaves }, Some(e)),
                Err(p) => match payload_outcome(p) {
                    Outcome::Panic(m) => (Outcome::Panic(format!("while reading the returned error (len / flatten / Display): {}", m)), None),
                    other => (other, None),
                },
            }
        }
        Err(p) => (payload_outcome(p), None),
    })
}

fn execute(sc: &Scenario, di: &syn::DeriveInput) -> Result<(Outcome, Option<darling::Error>), String> {
    let entry = match sc.entry {
        Entry::FromMeta => MetaEntry::FromMeta,
        Entry::FromList => MetaEntry::FromList,
        Entry::FromNone => MetaEntry::FromNone,
        Entry::FromWord => MetaEntry::FromWord,
        _ => return execute_elem(sc, di),
    };
    let meta = first_meta(di).ok_or_else(|| "input has no attribute".to_string())?;
    let r = {
        let _g = InParse::enter();
        catch_unwind(AssertUnwindSafe(|| corpus::run_meta_receiver(&sc.receiver, &entry, meta)))
    };
    Ok(match r {
        Ok(None) => return Err(format!("unknown receiver {}", sc.receiver)),
        Ok(Some(Ok(v))) => (Outcome::Ok(v), None),
        Ok(Some(Err(e))) => {
            // reading the returned error (len, flatten, Display) is darling code too: a panic there is
            // the parse's panic, not the harness's
            let seen = {
                let _g = InParse::enter();
                catch_unwind(AssertUnwindSafe(|| observe_error(&e)))
            };
            match seen {
                Ok((len, leaves)) => (Outcome::Err { len, leaves }, Some(e)),
                Err(p) => match payload_outcome(p) {
                    Outcome::Panic(m) => (Outcome::Panic(format!("while reading the returned error (len / flatten / Display): {}", m)), None),
                    other => (other, None),
                },
            }
        }
        Err(p) => (payload_outcome(p), None),
    })
}

/// What the model expects of this scenario.
pub enum Expected {
    Value(Option<Val>),
    Leaves(Vec<Leaf>),
    Panic(String),
    /// the model does not predict the outcome (built-in conversions): anything but a panic
    NoPanic,
}

pub fn expect(sc: &Scenario, doc: &InputDoc, recvs: &'static BTreeMap<&'static str, RecvDesc>, env: &Env) -> (Expected, Model<'static>, Result<(), String>) {
    let mut m = Model::new(recvs, env);
    input::for_each_item(doc, &mut |it| {
        // the token that starts at an item's position: the first `:` of `::`, or the first path segment
        let first_len = if it.name.starts_with("::") { 1 } else { it.name.split("::").next().map(|s| s.chars().count()).unwrap_or(0) };
        let start = it.r_path.0;
        m.remote_ranges.insert(start, (start, (start.0, start.1 + first_len)));
    });
    if matches!(sc.entry, Entry::DeriveInput | Entry::Attributes | Entry::Field(_) | Entry::Variant(_) | Entry::TypeParam(_)) {
        use crate::input::{Body, FieldsDoc};
        use crate::model::ElemView;
        let view = match &sc.entry {
            Entry::DeriveInput => ElemView { attrs: &doc.attrs, ident: Some(&doc.ident), body: Some(&doc.body), generics: &doc.generics, vfields: None },
            Entry::Attributes => ElemView { attrs: &doc.attrs, ident: None, body: None, generics: &[], vfields: None },
            Entry::Field(i) => match &doc.body {
                Body::Struct(FieldsDoc::Named(fs)) | Body::Struct(FieldsDoc::Tuple(fs)) => match fs.get(*i) {
                    Some(f) => ElemView { attrs: &f.attrs, ident: f.name.as_deref(), body: None, generics: &[], vfields: None },
                    None => return (Expected::Value(None), m, Err("no such field".into())),
                },
                _ => return (Expected::Value(None), m, Err("field entry needs a struct".into())),
            },
            Entry::Variant(i) => match &doc.body {
                Body::Enum(vs) => match vs.get(*i) {
                    Some(v) => ElemView { attrs: &v.attrs, ident: Some(&v.name), body: None, generics: &[], vfields: Some(&v.fields) },
                    None => return (Expected::Value(None), m, Err("no such variant".into())),
                },
                _ => return (Expected::Value(None), m, Err("variant entry needs an enum".into())),
            },
            Entry::TypeParam(i) => match doc.generics.get(*i) {
                Some(t) => ElemView { attrs: &t.attrs, ident: Some(&t.name), body: None, generics: &[], vfields: None },
                None => return (Expected::Value(None), m, Err("no such type parameter".into())),
            },
            _ => unreachable!(),
        };
        if !crate::schema::elems().contains_key(sc.receiver.as_str()) {
            return (Expected::Value(None), m, Err(format!("element receiver {} not in schema", sc.receiver)));
        }
        return match m.elem_parse(&sc.receiver, &view) {
            Err(Abort(k)) => (Expected::Panic(k), m, Ok(())),
            Ok(Ok(v)) => (Expected::Value(Some(v)), m, Ok(())),
            Ok(Err(ls)) => (Expected::Leaves(ls), m, Ok(())),
        };
    }
    let d = match recvs.get(sc.receiver.as_str()) {
        Some(d) => d.clone(),
        None => return (Expected::Value(None), m, Err(format!("receiver {} not in schema", sc.receiver))),
    };
    let top = match doc.attrs.first() {
        Some(Attr::Meta(it)) => it.clone(),
        _ => return (Expected::Value(None), m, Err("first attribute must be a meta item".into())),
    };
    let r: Result<Conv, Abort> = match sc.entry {
        Entry::FromMeta => m.conv(&crate::schema::Ty::Recv(d.name), &top),
        Entry::FromList => match &top.form {
            input::Form::List(items) => m.conv_from_list(&crate::schema::Ty::Recv(d.name), items),
            _ => m.conv(&crate::schema::Ty::Recv(d.name), &top),
        },
        Entry::FromNone => {
            let v = m.from_none(&crate::schema::Ty::Recv(d.name));
            return (Expected::Value(v), m, Ok(()));
        }
        Entry::FromWord => {
            // from_word() itself: no item, hence no span layer
            m.from_word_entry(&d)
        }
        _ => unreachable!(),
    };
    match r {
        Err(Abort(k)) => (Expected::Panic(k), m, Ok(())),
        _ if m.unpredictable => (Expected::NoPanic, m, Ok(())),
        Ok(Ok(v)) => (Expected::Value(Some(v)), m, Ok(())),
        Ok(Err(ls)) => (Expected::Leaves(ls), m, Ok(())),
    }
}

fn describe(e: &Expected) -> String {
    match e {
        Expected::Value(v) => format!("Ok({:?})", v),
        Expected::Leaves(ls) => format!("Err({} leaves: {:?})", ls.len(), ls.iter().map(|l| (&l.msg, &l.path, &l.span)).collect::<Vec<_>>()),
        Expected::Panic(k) => format!("unwind with SimPanic({})", k),
        Expected::NoPanic => "a value or an error (not predicted), never a panic".to_string(),
    }
}

/// Compare one observed outcome with one expectation. `panic_fired`: the call log shows that a panic
/// fault actually fired at a seam during this parse.
fn judge(exp: &Expected, obs: &Outcome, err: Option<&darling::Error>, panic_fired: bool, tolerated: &[Range], tag: &str, out: &mut Vec<Failure>) {
    // C07: a parse unwinds only with a panic that foreign code started, and then with exactly that one
    match obs {
        Outcome::Panic(msg) => {
            if panic_fired {
                out.push(fail("C07.R2", format!("{}a panic fault fired but a different panic reached the caller: {}", tag, msg)));
            } else {
                out.push(fail("C07.R1", format!("{}parser panicked: {}", tag, msg)));
            }
            return;
        }
        Outcome::SimPanic(_) => return, // the foreign panic itself, unchanged: nothing else to compare
        _ => {
            if panic_fired {
                out.push(fail("C07.R2", format!("{}a panic fault fired at a seam but the parse returned normally ({})", tag, short(obs))));
                return;
            }
        }
    }
    match (exp, obs) {
        // the model expected a panic seam to be reached and it was not: which seams darling calls when
        // no property depends on it is darling's business; nothing to compare in this run
        (Expected::Panic(_), _) => {}
        (Expected::NoPanic, _) => {
            // not predicted (library conversions): which errors come back is not judged, but what C03 says
            // of every error value still holds - spans belong to this input, and conversion to compiler
            // diagnostics keeps every leaf and its span
            if let (Some(e), Outcome::Err { len, leaves }) = (err, obs) {
                let mut fs = Vec::new();
                if *len != leaves.len() {
                    fs.push(fail("C02.R3", format!("Error::len() = {} but {} leaves", len, leaves.len())));
                }
                check_error_value(e, leaves, &mut fs);
                for mut f in fs {
                    f.detail = format!("{}{}", tag, f.detail);
                    out.push(f);
                }
            }
        }
        (Expected::Value(v), Outcome::Ok(o)) => {
            if !opt_val_matches(v, o) {
                out.push(fail("C02.R1v", format!("{}value differs: expected {:?}, got {:?}", tag, v, o)));
            }
        }
        (Expected::Value(_), Outcome::Err { leaves, .. }) => {
            let invented: Vec<&String> = leaves.iter().filter(|l| !matches!(l.span, Some(sp) if tolerated.iter().any(|r| crate::input::contains(*r, sp)))).map(|l| &l.text).collect();
            out.push(fail("C02.R1", format!("{}input has no mistake and no fault fired, but the parse failed: {:?}", tag, invented)));
        }
        (Expected::Leaves(ls), Outcome::Ok(_)) => {
            out.push(fail("C02.R1", format!("{}parse succeeded although {} leaves were expected: {:?}", tag, ls.len(), ls.iter().map(|l| (&l.msg, &l.path)).collect::<Vec<_>>())));
        }
        (Expected::Leaves(ls), Outcome::Err { len, leaves }) => {
            let mut fs = oracle::check_leaves_tolerating(ls, leaves, tolerated);
            if *len != leaves.len() {
                fs.push(fail("C02.R3", format!("Error::len() = {} but {} leaves", len, leaves.len())));
            }
            if let Some(e) = err {
                check_error_value(e, leaves, &mut fs);
            }
            for mut f in fs {
                f.detail = format!("{}{}", tag, f.detail);
                out.push(f);
            }
        }
        (_, Outcome::Panic(_)) | (_, Outcome::SimPanic(_)) => unreachable!("handled above"),
    }
}

/// Structural equality in which `Val::Opaque` on the model's side stands for "not looked into".
fn val_matches(m: &Val, o: &Val) -> bool {
    match (m, o) {
        (Val::Opaque, _) => true,
        (Val::Some(a), Val::Some(b)) => val_matches(a, b),
        (Val::Seq(a), Val::Seq(b)) => a.len() == b.len() && a.iter().zip(b).all(|(x, y)| val_matches(x, y)),
        (Val::Struct(n, a), Val::Struct(k, b)) => n == k && a.len() == b.len() && a.iter().zip(b).all(|((fa, x), (fb, y))| fa == fb && val_matches(x, y)),
        (Val::Variant(n, a), Val::Variant(k, b)) => n == k && val_matches(a, b),
        (Val::Map(a), Val::Map(b)) => a.len() == b.len() && a.iter().zip(b).all(|((ka, x), (kb, y))| ka == kb && val_matches(x, y)),
        _ => m == o,
    }
}

fn opt_val_matches(m: &Option<Val>, o: &Option<Val>) -> bool {
    match (m, o) {
        (None, None) => true,
        (Some(a), Some(b)) => val_matches(a, b),
        _ => false,
    }
}

fn short(o: &Outcome) -> String {
    let s = format!("{:?}", o);
    s.chars().take(300).collect()
}

/// Equal outcomes, except for where the spans of error leaves end.
fn same_but_span_ends(a: &Outcome, b: &Outcome) -> bool {
    match (a, b) {
        (Outcome::Err { len: la, leaves: xa }, Outcome::Err { len: lb, leaves: xb }) => {
            la == lb && xa.len() == xb.len() && xa.iter().zip(xb).all(|(x, y)| x.text == y.text && x.span.map(|r| r.0) == y.span.map(|r| r.0))
        }
        _ => a == b,
    }
}

/// The input once more, every token taken (seeded) from one of two separately lexed copies of the text.
fn split_source(source: &str, seed: u64) -> Option<syn::DeriveInput> {
    use proc_macro2::{Group, TokenStream, TokenTree};
    fn next(st: &mut u64) -> bool {
        *st ^= *st << 13;
        *st ^= *st >> 7;
        *st ^= *st << 17;
        (*st >> 33) & 1 == 1
    }
    fn mix(a: TokenStream, b: TokenStream, st: &mut u64) -> TokenStream {
        a.into_iter()
            .zip(b)
            .map(|(x, y)| match (x, y) {
                (TokenTree::Group(gx), TokenTree::Group(gy)) => {
                    let mut g = Group::new(gx.delimiter(), mix(gx.stream(), gy.stream(), st));
                    g.set_span(if next(st) { gx.span() } else { gy.span() });
                    TokenTree::Group(g)
                }
                (x, y) => {
                    if next(st) {
                        x
                    } else {
                        y
                    }
                }
            })
            .collect()
    }
    let a: TokenStream = source.parse().ok()?;
    let b: TokenStream = source.parse().ok()?;
    let mut st = seed | 1;
    syn::parse2(mix(a, b, &mut st)).ok()
}

/// Run a scenario completely.
/// Single-threaded phases of a command (enumerating sweep cases, minimising, writing replays) have no
/// pool slot a watchdog could look at: while `TRACK` is set, every run records itself here first.
pub static TRACK: std::sync::atomic::AtomicBool = std::sync::atomic::AtomicBool::new(false);
pub static CURRENT: std::sync::Mutex<Option<(String, std::time::Instant)>> = std::sync::Mutex::new(None);

pub fn run(sc: &Scenario, recvs: &'static BTreeMap<&'static str, RecvDesc>) -> Judged {
    let tracked = TRACK.load(std::sync::atomic::Ordering::Relaxed);
    if tracked {
        *CURRENT.lock().unwrap_or_else(|e| e.into_inner()) = Some((serde_json::to_string(sc).unwrap_or_default(), std::time::Instant::now()));
    }
    let j = run_untracked(sc, recvs);
    if tracked {
        *CURRENT.lock().unwrap_or_else(|e| e.into_inner()) = None;
    }
    j
}

fn run_untracked(sc: &Scenario, recvs: &'static BTreeMap<&'static str, RecvDesc>) -> Judged {
    let mut doc = sc.doc.clone();
    let source = input::render(&mut doc);
    let mut j = Judged {
        failures: Vec::new(),
        outcome: Outcome::Ok(None),
        expected: String::new(),
        log: Vec::new(),
        source: source.clone(),
        fired: Vec::new(),
        mistakes: Vec::new(),
        seam_calls: 0,
        harness_error: None,
    };
    let di: syn::DeriveInput = match syn::parse_str(&source) {
        Ok(d) => d,
        Err(e) => {
            j.harness_error = Some(format!("generator emitted text syn rejects: {} in {:?}", e, source));
            return j;
        }
    };
    // world tables
    let mut items = BTreeMap::new();
    let mut parts = BTreeMap::new();
    input::for_each_item(&doc, &mut |it| {
        items.insert(it.r_item.0, it.id);
        parts.insert(it.id, (it.r_path, it.r_value));
        // seams that are handed the value (from_value / from_expr overrides) find the item by where its value starts
        if let (input::Form::NV(_), Some(rv)) = (&it.form, it.r_value) {
            items.insert(rv.0, it.id);
        }
    });
    input::for_each_element(&doc, &mut |id, r| {
        items.insert(r.0, id);
        parts.insert(id, (r, Some(r)));
    });
    let mut tokens = BTreeMap::new();
    collect_tokens(di.to_token_stream(), &mut tokens);
    // tokens are keyed by position: the first and the last one bound the text
    world::set_input_bytes(tokens.values().next().copied().into_iter().chain(tokens.values().next_back().copied()));
    world::reset(&sc.env, items, parts, tokens);

    // expectation
    let (exp, model, ok) = expect(sc, &doc, recvs, &sc.env);
    if let Err(e) = ok {
        j.harness_error = Some(e);
        return j;
    }
    j.expected = describe(&exp);
    j.fired = model.fired.iter().map(|(a, b)| (a.clone(), b.to_string())).collect();
    j.mistakes = model.mistakes.iter().map(|s| s.to_string()).collect();

    // the real thing
    let (outcome, err) = match execute(sc, &di) {
        Ok(x) => x,
        Err(e) => {
            j.harness_error = Some(e);
            return j;
        }
    };
    j.log = world::take_log();
    j.seam_calls = j.log.len();
    let panic_fired = j.log.iter().any(|c| c.fired.as_deref() == Some("Panic"));
    judge(&exp, &outcome, err.as_ref(), panic_fired, &model.may_convert, "", &mut j.failures);

    // C02.R6: every input item is handed to exactly as many seam calls as the model says (0 or 1)
    if !matches!(exp, Expected::Panic(_) | Expected::NoPanic) && !panic_fired && !matches!(outcome, Outcome::Panic(_) | Outcome::SimPanic(_)) {
        let mut counts: BTreeMap<u32, u32> = BTreeMap::new();
        for c in &j.log {
            if let (Some(id), true) = (c.item, matches!(c.hook.as_str(), "from_meta" | "with" | "from_string" | "from_field" | "from_value" | "from_expr")) {
                *counts.entry(id).or_insert(0) += 1;
            }
        }
        for (id, n) in &counts {
            let want = model.item_calls.get(id).copied().unwrap_or(0);
            if model.may_convert_ids.contains(id) && *n <= 1 {
                continue;
            }
            if *n != want {
                j.failures.push(fail("C02.R6", format!("item {} was handed to {} seam calls, expected {}", id, n, want)));
            }
        }
        for (id, want) in &model.item_calls {
            if *want > 0 && !counts.contains_key(id) {
                j.failures.push(fail("C02.R6", format!("item {} was never converted, expected {} call(s)", id, want)));
            }
        }
        for c in &j.log {
            if c.item.is_none() && c.handed.is_some() {
                j.failures.push(fail("C02.R6", format!("a seam was handed an item that is not in the input: {:?}", c)));
            }
        }
    }

    // recovery (C02.R7 / C07.R4): same input, same thread, faults cleared
    if std::thread::panicking() {
        j.failures.push(fail("C07.R4", "thread still panicking after the run"));
    }
    if matches!(outcome, Outcome::SimPanic(_) | Outcome::Panic(_)) {
        // after an unwind went through the parser: drop bombs must be armed again on this thread
        let r = {
            let _g = InParse::enter();
            catch_unwind(|| {
                let _unfinished = darling::Error::accumulator();
            })
        };
        if r.is_ok() {
            j.failures.push(fail("C07.R4", "after a panic unwound through the parser, an unfinished accumulator no longer panics on drop"));
        }
        LAST_PANIC.with(|p| p.borrow_mut().take());
    }
    let mut clean_outcome: Option<Outcome> = None;
    if !sc.env.faults.is_empty() {
        let mut clean_env = sc.env.clone();
        clean_env.faults.clear();
        world::clear_faults();
        let (exp2, _m2, _) = expect(sc, &doc, recvs, &clean_env);
        if let Ok((out2, err2)) = execute(sc, &di) {
            clean_outcome = Some(out2.clone());
            let mut fs = Vec::new();
            judge(&exp2, &out2, err2.as_ref(), false, &_m2.may_convert, "[re-parse with faults cleared] ", &mut fs);
            for mut f in fs {
                f.rule = match f.rule.as_str() {
                    r if r.starts_with("C07") => "C07.R4".to_string(),
                    r if r.starts_with("C03") => r.to_string(),
                    _ => "C02.R7".to_string(),
                };
                j.failures.push(f);
            }
        }
        world::take_log();
    }
    // C07.R5 / C02.R8: span-backend fault. The same text handed over as tokens drawn from two separately
    // lexed copies (two entries of the source map): their spans do not join (`Span::join` is `None`, as it
    // always is on a stable compiler) although line / column agree. Faults cleared; the parse must not
    // panic, and nothing observable (value, leaves, messages, where spans start) may differ from the
    // fault-free parse of the single-text tokens. Where a span of several tokens ends is not compared:
    // syn's `Spanned` falls back to the first token when the join fails.
    if (sc.env.hasher_seed >> 7) & 3 == 0 {
        if let Some(di2) = split_source(&source, sc.env.hasher_seed) {
            world::clear_faults();
            let base = if sc.env.faults.is_empty() && !matches!(outcome, Outcome::Panic(_) | Outcome::SimPanic(_)) { Some(outcome.clone()) } else { clean_outcome.clone() };
            if let Ok((o, _)) = execute(sc, &di2) {
                j.mistakes.push("probe:split_source_reparse".to_string());
                match (&o, &base) {
                    (Outcome::Panic(m), _) => j.failures.push(fail("C07.R5", format!("[tokens from two source texts, spans do not join] parse panicked: {}", m))),
                    (Outcome::SimPanic(_), _) => {}
                    (o, Some(b)) if !matches!(b, Outcome::Panic(_) | Outcome::SimPanic(_)) && !same_but_span_ends(o, b) => j.failures.push(fail(
                        "C02.R8",
                        format!("[tokens from two source texts, spans do not join] outcome differs from the single-text parse: {} vs {}", short(o), short(b)),
                    )),
                    _ => {}
                }
            }
            world::take_log();
        }
    }
    // C14.R3 / C14.R4: nothing observable depends on hasher state, and hash and ordered maps with
    // the same key and value types behave identically (faults are keyed by item, so both meet the
    // same faults)
    if sc.mode == "map" {
        let primary = outcome.clone();
        let mut variants = 0u32;
        for mode in 0..4u8 {
            for seed in [0u64, sc.env.hasher_seed ^ 0x9E37_79B9, u64::MAX] {
                if mode == sc.env.hasher_mode && seed == sc.env.hasher_seed {
                    continue;
                }
                world::reset_faults(&sc.env);
                world::set_hasher(mode, seed);
                if let Ok((o, _)) = execute(sc, &di) {
                    variants += 1;
                    if o != primary {
                        j.failures.push(fail(
                            "C14.R3",
                            format!("outcome depends on hasher state: mode {} seed {} gives {}, mode {} seed {} gives {}", sc.env.hasher_mode, sc.env.hasher_seed, short(&primary), mode, seed, short(&o)),
                        ));
                    }
                }
            }
        }
        if let Some(twin) = crate::schema::btree_twin(&sc.receiver) {
            world::reset_faults(&sc.env);
            world::set_hasher(sc.env.hasher_mode, sc.env.hasher_seed);
            let mut sc2 = sc.clone();
            sc2.receiver = twin.to_string();
            if let Ok((o, _)) = execute(&sc2, &di) {
                variants += 1;
                if o != primary {
                    j.failures.push(fail("C14.R4", format!("hash map gives {}, ordered map with the same key and value types gives {}", short(&primary), short(&o))));
                }
            }
        }
        j.mistakes.push(format!("probe:hasher_and_twin_variants_compared_x{}", variants.min(12)));
        world::take_log();
    }
    j.outcome = outcome;
    j
}
