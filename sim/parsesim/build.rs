//! `PARSESIM_SKIP=NAME,NAME` leaves those corpus receivers (and everything containing them) out of
//! the build: see cfg_corpus.py. Unset on the unchanged tree.
fn main() {
    println!("cargo:rerun-if-env-changed=PARSESIM_SKIP");
    println!("cargo:rerun-if-changed=build.rs");
    println!("cargo:rustc-check-cfg=cfg(skip, values(any()))");
    if let Ok(s) = std::env::var("PARSESIM_SKIP") {
        for name in s.split(',').map(|x| x.trim()).filter(|x| !x.is_empty()) {
            assert!(name.chars().all(|c| c.is_ascii_alphanumeric() || c == '_'), "bad receiver name {:?}", name);
            println!("cargo:rustc-cfg=skip=\"{}\"", name);
        }
    }
}
