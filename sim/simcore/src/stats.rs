//! Counters and distinct-sets with commutative merge, so that totals do not depend on which
//! worker executed which run.

use std::collections::{BTreeMap, BTreeSet};

#[derive(Clone, Debug, Default)]
pub struct Stats {
    pub counters: BTreeMap<String, u64>,
    pub sets: BTreeMap<String, BTreeSet<u64>>,
}

impl Stats {
    pub fn new() -> Self {
        Self::default()
    }
    pub fn add(&mut self, key: &str, n: u64) {
        if let Some(c) = self.counters.get_mut(key) {
            *c += n;
        } else {
            self.counters.insert(key.to_string(), n);
        }
    }
    pub fn inc(&mut self, key: &str) {
        self.add(key, 1)
    }
    pub fn touch(&mut self, key: &str) {
        self.add(key, 0)
    }
    pub fn get(&self, key: &str) -> u64 {
        self.counters.get(key).copied().unwrap_or(0)
    }
    pub fn distinct(&mut self, set: &str, digest: u64) {
        if let Some(s) = self.sets.get_mut(set) {
            s.insert(digest);
        } else {
            let mut s = BTreeSet::new();
            s.insert(digest);
            self.sets.insert(set.to_string(), s);
        }
    }
    pub fn distinct_count(&self, set: &str) -> u64 {
        self.sets.get(set).map(|s| s.len() as u64).unwrap_or(0)
    }
    pub fn merge(&mut self, other: Stats) {
        for (k, v) in other.counters {
            self.add(&k, v);
        }
        for (k, s) in other.sets {
            self.sets.entry(k).or_default().extend(s);
        }
    }
    /// Counters whose key starts with `prefix`, with the prefix stripped.
    pub fn with_prefix(&self, prefix: &str) -> BTreeMap<String, u64> {
        self.counters
            .iter()
            .filter(|(k, _)| k.starts_with(prefix))
            .map(|(k, v)| (k[prefix.len()..].to_string(), *v))
            .collect()
    }
}
