//! Delta debugging over a vector: find a small sub-vector for which `fails` still holds.
//! `fails` must be deterministic. The budget counts calls to `fails`.

pub fn ddmin<T: Clone>(items: Vec<T>, budget: &mut usize, fails: &mut dyn FnMut(&[T]) -> bool) -> Vec<T> {
    let mut cur = items;
    let mut n = 2usize;
    while cur.len() >= 1 && *budget > 0 {
        let len = cur.len();
        if n > len {
            n = len.max(1);
        }
        let chunk = (len + n - 1) / n;
        let mut reduced = false;
        // try removing each chunk (complement testing; good enough and cheap)
        let mut i = 0;
        while i < len {
            if *budget == 0 {
                return cur;
            }
            let hi = (i + chunk).min(len);
            let mut cand = Vec::with_capacity(len - (hi - i));
            cand.extend_from_slice(&cur[..i]);
            cand.extend_from_slice(&cur[hi..]);
            *budget -= 1;
            if fails(&cand) {
                cur = cand;
                n = n.saturating_sub(1).max(2);
                reduced = true;
                break;
            }
            i = hi;
        }
        if !reduced {
            if chunk <= 1 {
                break;
            }
            n = (n * 2).min(len);
        }
    }
    cur
}

#[cfg(test)]
mod tests {
    use super::*;
    #[test]
    fn finds_pair() {
        let v: Vec<u32> = (0..40).collect();
        let mut budget = 1000;
        let r = ddmin(v, &mut budget, &mut |c| c.contains(&7) && c.contains(&31));
        assert_eq!(r, vec![7, 31]);
    }
}
