//! Shared pieces of both simulators: the seeded PRNG with named sub-streams, digests, counters,
//! a delta-debugging minimiser over vectors, and the worker pool whose results do not depend on
//! how many workers there are.
//!
//! Nothing in here reads a clock or any other ambient state; the only wall-clock reads are in the
//! drivers (`main.rs` of each simulator) and in `/verif/check`, for budgets and evidence.

pub mod rng;
pub mod digest;
pub mod stats;
pub mod ddmin;
pub mod pool;
pub mod sched;

pub use digest::Fnv;
pub use rng::Rng;
pub use stats::Stats;

pub use serde;
pub use serde_json;

/// `VERIF_SEED` (u64, default 1). Anything unparsable is a harness error, not a default.
pub fn verif_seed_from_env() -> Result<u64, String> {
    match std::env::var("VERIF_SEED") {
        Err(_) => Ok(1),
        Ok(s) => {
            let t = s.trim();
            if t.is_empty() {
                return Ok(1);
            }
            if let Ok(v) = t.parse::<u64>() {
                return Ok(v);
            }
            if let Ok(v) = t.parse::<i64>() {
                return Ok(v as u64);
            }
            Err(format!("VERIF_SEED={:?} is not an integer", s))
        }
    }
}

/// The seed of run `index` under the global seed: a pure function of both.
pub fn run_seed(verif_seed: u64, index: u64) -> u64 {
    rng::splitmix64(verif_seed ^ index.wrapping_mul(0x9E37_79B9_7F4A_7C15))
}
