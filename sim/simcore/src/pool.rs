//! Worker pool. Run `i` is a pure function of `(VERIF_SEED, i)`; workers take index chunks from an
//! atomic counter and fold results into per-worker accumulators that the caller merges with a
//! commutative merge. Worker threads are retired after `retire_after` runs (proc-macro2's
//! thread-local source map only ever grows) and have large stacks.

use std::fs::File;
use std::os::unix::fs::FileExt;
use std::sync::atomic::{AtomicBool, AtomicU64, Ordering};

pub struct PoolCfg {
    pub workers: usize,
    pub stack_bytes: usize,
    pub retire_after: u64,
    pub chunk: u64,
    /// If set, each worker slot records the index it is about to run at offset `slot * 8`, so a
    /// parent process can tell which runs were in flight when the process died.
    pub progress: Option<File>,
    /// If set (2 entries per worker slot): `[2*slot]` = index being run + 1 (0 = between runs),
    /// `[2*slot+1]` = wall milliseconds since `epoch` when it started. For a hang watchdog; wall
    /// time never reaches a simulated run.
    pub beats: Option<std::sync::Arc<Vec<AtomicU64>>>,
    pub epoch: std::time::Instant,
}

pub fn run_parallel<A, M, F>(start: u64, count: u64, cfg: &PoolCfg, stop: &AtomicBool, make: M, f: F) -> Vec<A>
where
    A: Send,
    M: Fn() -> A + Sync,
    F: Fn(u64, &mut A) + Sync,
{
    let next = AtomicU64::new(start);
    let end = start + count;
    let mut out: Vec<A> = Vec::new();
    std::thread::scope(|scope| {
        let mut slots = Vec::new();
        for slot in 0..cfg.workers.max(1) {
            let next = &next;
            let make = &make;
            let f = &f;
            slots.push(scope.spawn(move || {
                let mut acc = make();
                loop {
                    if next.load(Ordering::Relaxed) >= end || stop.load(Ordering::Relaxed) {
                        break;
                    }
                    // one retired-after-N worker thread
                    let moved = acc;
                    let joined = std::thread::scope(|inner| {
                        std::thread::Builder::new()
                            .stack_size(cfg.stack_bytes)
                            .spawn_scoped(inner, move || {
                                let mut acc = moved;
                                let mut done = 0u64;
                                while done < cfg.retire_after && !stop.load(Ordering::Relaxed) {
                                    let lo = next.fetch_add(cfg.chunk, Ordering::Relaxed);
                                    if lo >= end {
                                        break;
                                    }
                                    let hi = (lo + cfg.chunk).min(end);
                                    for i in lo..hi {
                                        if let Some(p) = &cfg.progress {
                                            let _ = p.write_at(&i.to_le_bytes(), (slot as u64) * 8);
                                        }
                                        if let Some(b) = &cfg.beats {
                                            b[2 * slot + 1].store(cfg.epoch.elapsed().as_millis() as u64, Ordering::Relaxed);
                                            b[2 * slot].store(i + 1, Ordering::Release);
                                        }
                                        f(i, &mut acc);
                                        if let Some(b) = &cfg.beats {
                                            b[2 * slot].store(0, Ordering::Release);
                                        }
                                        done += 1;
                                    }
                                }
                                if let Some(p) = &cfg.progress {
                                    let _ = p.write_at(&u64::MAX.to_le_bytes(), (slot as u64) * 8);
                                }
                                acc
                            })
                            .expect("spawn worker")
                            .join()
                    });
                    match joined {
                        Ok(a) => acc = a,
                        // a panic escaping `f` is a harness error; propagate
                        Err(_) => panic!("worker thread panicked outside a simulated run"),
                    }
                }
                acc
            }));
        }
        for s in slots {
            out.push(s.join().expect("worker slot"));
        }
    });
    out
}
