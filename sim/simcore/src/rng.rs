//! splitmix64 + xoshiro256**, with named sub-streams so that adding a draw to one stream never
//! shifts another.

pub fn splitmix64(mut x: u64) -> u64 {
    x = x.wrapping_add(0x9E37_79B9_7F4A_7C15);
    let mut z = x;
    z = (z ^ (z >> 30)).wrapping_mul(0xBF58_476D_1CE4_E5B9);
    z = (z ^ (z >> 27)).wrapping_mul(0x94D0_49BB_1331_11EB);
    z ^ (z >> 31)
}

#[derive(Clone, Debug)]
pub struct Rng {
    s: [u64; 4],
}

impl Rng {
    pub fn new(seed: u64) -> Self {
        let mut x = seed;
        let mut s = [0u64; 4];
        for slot in s.iter_mut() {
            x = x.wrapping_add(0x9E37_79B9_7F4A_7C15);
            *slot = splitmix64(x);
        }
        if s == [0, 0, 0, 0] {
            s[0] = 1;
        }
        Rng { s }
    }

    /// Independent stream for `name` under `seed`.
    pub fn stream(seed: u64, name: &str) -> Self {
        let mut h: u64 = 0xcbf2_9ce4_8422_2325;
        for b in name.as_bytes() {
            h ^= *b as u64;
            h = h.wrapping_mul(0x0000_0100_0000_01B3);
        }
        Rng::new(splitmix64(seed ^ h))
    }

    pub fn next_u64(&mut self) -> u64 {
        let result = self.s[1].wrapping_mul(5).rotate_left(7).wrapping_mul(9);
        let t = self.s[1] << 17;
        self.s[2] ^= self.s[0];
        self.s[3] ^= self.s[1];
        self.s[1] ^= self.s[2];
        self.s[0] ^= self.s[3];
        self.s[2] ^= t;
        self.s[3] = self.s[3].rotate_left(45);
        result
    }

    /// Uniform in `0..n` (n > 0). Modulo bias is irrelevant at the sizes used here.
    pub fn below(&mut self, n: usize) -> usize {
        debug_assert!(n > 0);
        (self.next_u64() % (n as u64)) as usize
    }

    /// Uniform in `lo..=hi`.
    pub fn range(&mut self, lo: usize, hi: usize) -> usize {
        lo + self.below(hi - lo + 1)
    }

    /// True with probability `pct` percent.
    pub fn pct(&mut self, pct: u32) -> bool {
        (self.next_u64() % 100) < pct as u64
    }

    pub fn pick<'a, T>(&mut self, xs: &'a [T]) -> &'a T {
        &xs[self.below(xs.len())]
    }

    pub fn shuffle<T>(&mut self, xs: &mut [T]) {
        for i in (1..xs.len()).rev() {
            let j = self.below(i + 1);
            xs.swap(i, j);
        }
    }

    /// Pick an index according to integer weights.
    pub fn weighted(&mut self, weights: &[u32]) -> usize {
        let total: u64 = weights.iter().map(|w| *w as u64).sum();
        debug_assert!(total > 0);
        let mut x = self.next_u64() % total;
        for (i, w) in weights.iter().enumerate() {
            if x < *w as u64 {
                return i;
            }
            x -= *w as u64;
        }
        weights.len() - 1
    }
}

#[cfg(test)]
mod tests {
    use super::*;

    #[test]
    fn streams_are_independent_and_stable() {
        let mut a = Rng::stream(1, "gen");
        let mut b = Rng::stream(1, "faults");
        let mut a2 = Rng::stream(1, "gen");
        let x = a.next_u64();
        assert_ne!(x, b.next_u64());
        assert_eq!(x, a2.next_u64());
    }
}
