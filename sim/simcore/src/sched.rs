//! Baton scheduler over real OS threads: a thread runs only while it holds the baton; at every
//! scheduler point it hands the baton to the thread the scenario's schedule list names next. The OS
//! never chooses who runs. A thread can be parked here in the middle of an unwind (from a guard's
//! destructor), with `std::thread::panicking() == true` on that thread, while others run.

//!
//! Stall rule: the baton holder may block on something the scheduler does not see (a lock inside the
//! code under test that a *parked* thread holds). If no scheduling decision has been made for
//! `STALL` of wall time while threads are parked, the scheduler lets every thread run freely for the
//! rest of the run (as the OS would); the run is still judged, and a run that does not finish even
//! then is a genuine hang, which the coordinator reports. Correct code never gets near the bound.

use std::sync::{Condvar, Mutex, MutexGuard};
use std::time::{Duration, Instant};

const STALL: Duration = Duration::from_secs(3);
const TICK: Duration = Duration::from_millis(100);

struct State {
    /// thread holding the baton; `usize::MAX` before kickoff and after the last thread finished
    current: usize,
    live: Vec<bool>,
    pos: usize,
    schedule: Vec<u8>,
    taken: Vec<u8>,
    parked_unwinding: Vec<bool>,
    overlap_events: u64,
    hook_parks: u64,
    /// wall time of the last scheduling decision (stall rule only; never feeds a decision)
    last_decision: Instant,
    /// the stall rule fired: everybody runs
    free: bool,
}

pub struct Sched {
    m: Mutex<State>,
    cv: Condvar,
}

impl Sched {
    pub fn new(n: usize, schedule: Vec<u8>) -> Self {
        Sched {
            m: Mutex::new(State {
                current: usize::MAX,
                live: vec![true; n],
                pos: 0,
                schedule,
                taken: Vec::new(),
                parked_unwinding: vec![false; n],
                overlap_events: 0,
                hook_parks: 0,
                last_decision: Instant::now(),
                free: false,
            }),
            cv: Condvar::new(),
        }
    }

    fn lock(&self) -> MutexGuard<'_, State> {
        self.m.lock().unwrap_or_else(|e| e.into_inner())
    }

    fn choose(st: &mut State) -> Option<usize> {
        let live: Vec<usize> = st.live.iter().enumerate().filter(|(_, l)| **l).map(|(i, _)| i).collect();
        if live.is_empty() {
            return None;
        }
        st.last_decision = Instant::now();
        let c = st.schedule.get(st.pos).copied().unwrap_or(0) as usize;
        st.pos += 1;
        let next = live[c % live.len()];
        st.taken.push(next as u8);
        Some(next)
    }

    /// First scheduling decision; called by the coordinator once all threads are spawned.
    pub fn kickoff(&self) {
        let mut st = self.lock();
        st.current = Self::choose(&mut st).unwrap_or(usize::MAX);
        self.cv.notify_all();
    }

    fn wait_for<'a>(&'a self, mut st: MutexGuard<'a, State>, tid: usize) -> MutexGuard<'a, State> {
        while st.current != tid && !st.free {
            let (g, to) = self.cv.wait_timeout(st, TICK).unwrap_or_else(|e| e.into_inner());
            st = g;
            if to.timed_out() && !st.free && st.current != usize::MAX && st.last_decision.elapsed() > STALL {
                st.free = true;
                self.cv.notify_all();
            }
        }
        st
    }

    /// Did the stall rule fire in this run?
    pub fn ran_free(&self) -> bool {
        self.lock().free
    }

    pub fn start(&self, tid: usize) {
        let st = self.lock();
        drop(self.wait_for(st, tid));
    }

    pub fn yield_point(&self, tid: usize, unwinding: bool) {
        let mut st = self.lock();
        if st.free {
            return;
        }
        st.parked_unwinding[tid] = unwinding;
        st.current = Self::choose(&mut st).unwrap_or(tid);
        self.cv.notify_all();
        let mut st2 = self.wait_for(st, tid);
        st2.parked_unwinding[tid] = false;
    }

    /// Scheduler point inside the panic hook of thread `tid`.
    pub fn hook_point(&self, tid: usize) {
        {
            let mut st = self.lock();
            st.hook_parks += 1;
        }
        self.yield_point(tid, true);
    }

    pub fn finish(&self, tid: usize) {
        let mut st = self.lock();
        st.live[tid] = false;
        st.current = Self::choose(&mut st).unwrap_or(usize::MAX);
        self.cv.notify_all();
    }

    /// Called before every statement: counts statements executed while some *other* thread is
    /// parked in the middle of an unwind.
    pub fn note_step(&self, tid: usize) {
        let mut st = self.lock();
        if st.parked_unwinding.iter().enumerate().any(|(i, p)| i != tid && *p) {
            st.overlap_events += 1;
        }
    }

    pub fn report(&self) -> (Vec<u8>, u64, u64) {
        let st = self.lock();
        (st.taken.clone(), st.overlap_events, st.hook_parks)
    }
}
