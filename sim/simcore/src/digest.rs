//! FNV-1a 64: the digest used for scenarios, traces and outcomes. Never fed with addresses,
//! `Span` debug output or anything else that depends on process or thread history.

#[derive(Clone, Copy, Debug)]
pub struct Fnv(pub u64);

impl Default for Fnv {
    fn default() -> Self {
        Fnv(0xcbf2_9ce4_8422_2325)
    }
}

impl Fnv {
    pub fn new() -> Self {
        Self::default()
    }
    pub fn bytes(&mut self, b: &[u8]) -> &mut Self {
        for x in b {
            self.0 ^= *x as u64;
            self.0 = self.0.wrapping_mul(0x0000_0100_0000_01B3);
        }
        self
    }
    pub fn str(&mut self, s: &str) -> &mut Self {
        self.bytes(s.as_bytes());
        self.bytes(&[0xff])
    }
    pub fn u64(&mut self, v: u64) -> &mut Self {
        self.bytes(&v.to_le_bytes())
    }
    pub fn finish(&self) -> u64 {
        self.0
    }
    pub fn of_str(s: &str) -> u64 {
        let mut f = Fnv::new();
        f.str(s);
        f.0
    }
}
